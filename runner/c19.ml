(* C19 runner: replays the rewards-module history (gauge / program creation, BeginBlockers with
   their recorded environment) on the extracted model Gauge.rstep, threading the MODEL state
   through the whole case and diffing gauge / epoch / program records, module balances and
   per-account payouts after every step; evaluates the extracted predicates holds_C19_* on the
   IMPLEMENTATION's observations.  Entry "C19-split": SplitTotalAmountPerEpoch called directly. *)
open Conv

let zs = z_of_string
let sz = string_of_z
let zi = z_of_int
let cls_of (o : 'a Base.outcome) = match o with Base.Ok _ -> "ok" | Base.Err _ -> "err" | Base.Panic -> "panic"
let zadd = BinInt.Z.add
let zsub = BinInt.Z.sub
let z0 = BinNums.Z0

(* n groups of k tokens *)
let rec groups k n l = if n <= 0 then ([], l) else
    let (g, r) = take k l in let (gs, r') = groups k (n - 1) r in (g :: gs, r')

let parse_gauge toks : Gauge.gauge = match toks with
  | dep :: dist :: trig :: tot :: act :: swap :: den :: dur :: start :: _ ->
    { Gauge.g_deposit = zs dep; g_distributed = zs dist; g_triggered = zs trig; g_total = zs tot; g_active = bool_of_tok act;
      g_start = zs start; g_dur = zs dur; g_swap = bool_of_tok swap; g_denom = zs den }
  | _ -> failwith "g line"

let show_gauge (g : Gauge.gauge) = Printf.sprintf "%s/%s/%s/%s/%s/%s/%s" (sz g.Gauge.g_deposit) (sz g.Gauge.g_distributed) (sz g.Gauge.g_triggered)
    (sz g.Gauge.g_total) (tok_of_bool g.Gauge.g_active) (tok_of_bool g.Gauge.g_swap) (sz g.Gauge.g_denom)
let show_epoch (e : Gauge.epoch) = Printf.sprintf "%s/%s/%s/%s" (sz e.Gauge.e_dur) (tok_of_bool e.Gauge.e_fresh) (sz e.Gauge.e_cur) (sz e.Gauge.e_cest)
let show_ext (x : Gauge.ext) = Printf.sprintf "%s/%s/%s/%s/%s/%s" (sz x.Gauge.x_kind) (sz x.Gauge.x_denom) (sz x.Gauge.x_avail) (tok_of_bool x.Gauge.x_active)
    (sz x.Gauge.x_count) (sz x.Gauge.x_next)

let parse_farm toks : Gauge.farm_env = match toks with
  | "err" :: _ -> Gauge.FarmErr
  | "plain" :: n :: rest -> let (gs, _) = groups 2 (int_of_string n) rest in
    Gauge.FarmPlain (L.map (function [a; s] -> (zs a, zs s) | _ -> failwith "plain") gs)
  | "master" :: n :: rest -> let (gs, _) = groups 3 (int_of_string n) rest in
    Gauge.FarmMaster (L.map (function [a; s; _] -> (zs a, zs s) | _ -> failwith "master") gs,
                      L.map (function [_; _; c] -> zs c | _ -> failwith "master") gs)
  | _ -> failwith "farm line"

let eligible = Gauge.eligible

(* "ok <#enabled others> ids.. <#farmers> { acct value k { pool value }*k }*": the per-pool observations of one gauge *)
let parse_fobs toks : (BinNums.coq_Z list * ((BinNums.coq_Z * BinNums.coq_Z) * (BinNums.coq_Z * BinNums.coq_Z) list) list) option =
  match toks with
  | "ok" :: no :: rest ->
    let (others, rest) = take (int_of_string no) rest in
    (match rest with
     | n :: rest ->
       let rec farmers k l = if k <= 0 then [] else
           (match l with
            | a :: v :: kk :: tl ->
              let (g2, tl') = groups 2 (int_of_string kk) tl in
              ((zs a, zs v), L.map (function [p; x] -> (zs p, zs x) | _ -> failwith "fobs") g2) :: farmers (k - 1) tl'
            | _ -> failwith "fobs farmer") in
       Some (L.map zs others, farmers (int_of_string n) rest)
     | [] -> failwith "fobs line")
  | _ -> None

(* "fraw": the raw inputs of the valuation (c19v_test.go) *)
let parse_fraw toks : (FarmValue.pool_raw list * (BinNums.coq_Z * (BinNums.coq_Z * BinNums.coq_Z) list) list) option =
  match toks with
  | "err" :: _ | [] -> None
  | np :: rest ->
    let (pg, rest) = groups 10 (int_of_string np) rest in
    let price f t d = if f = "1" then Some (zs t, zs d) else None in
    let pools = L.map (function
        | [pid; rx; ry; ps; qf; qt; qd; bf; bt; bd] ->
          { FarmValue.p_id = zs pid; p_rx = zs rx; p_ry = zs ry; p_ps = zs ps; p_q = price qf qt qd; p_b = price bf bt bd }
        | _ -> failwith "fraw pool") pg in
    (match rest with
     | nf :: rest ->
       let rec farmers k l = if k <= 0 then [] else
           (match l with
            | a :: kk :: tl ->
              let (g2, tl') = groups 2 (int_of_string kk) tl in
              (zs a, L.map (function [p; c] -> (zs p, zs c) | _ -> failwith "fraw farmer") g2) :: farmers (k - 1) tl'
            | _ -> failwith "fraw farmers") in
       Some (pools, farmers (int_of_string nf) rest)
     | [] -> failwith "fraw line")
let show_fobs (obs : ((BinNums.coq_Z * BinNums.coq_Z) * (BinNums.coq_Z * BinNums.coq_Z) list) list) =
  S.concat ";" (L.map (fun ((a, v), others) -> sz a ^ "=" ^ sz v ^ "[" ^ S.concat "," (L.map (fun (p, w) -> sz p ^ ":" ^ sz w) others) ^ "]") obs)

let parse_meta toks : Gauge.gmeta option = match toks with
  | pool :: master :: n :: rest ->
    let (ids, _) = take (int_of_string n) rest in
    Some { Gauge.m_pool = zs pool; m_master = bool_of_tok master; m_child = L.map zs ids }
  | _ -> None
let show_meta (m : Gauge.gmeta) = Printf.sprintf "pool=%s/master=%s/child=[%s]" (sz m.Gauge.m_pool) (tok_of_bool m.Gauge.m_master) (S.concat "," (L.map sz m.Gauge.m_child))

let show_sx (x : Gauge.sext) = Printf.sprintf "%s/%s/%s/%s/%s/%s" (sz x.Gauge.sx_app) (sz x.Gauge.sx_denom) (sz x.Gauge.sx_avail) (tok_of_bool x.Gauge.sx_active)
    (sz x.Gauge.sx_count) (sz x.Gauge.sx_next)
let show_srecs (l : Gauge.srec list) = S.concat "," (L.map (fun (r : Gauge.srec) -> sz r.Gauge.sr_acct ^ "@" ^ sz r.Gauge.sr_height ^ ":" ^ sz r.Gauge.sr_amount) l)

let show_pays (l : (BinNums.coq_Z * BinNums.coq_Z) list) = S.concat "," (L.map (fun (a, r) -> sz a ^ ":" ^ sz r) l)

let run (path : string) =
  let lines = read_lines path in
  let cases = ref 0 and steps = ref 0 and nontrivial = ref 0 in
  let case = ref "" and step = ref 0 and nt = ref false in
  let sig_ = Buffer.create 4096 in
  let st = ref Gauge.rinit2 in                  (* the MODEL state (with stable-mint programs) *)
  let dirty = ref "none" in                     (* a known-finding class was met earlier in this case *)
  (* previous implementation observation *)
  let pgs : Gauge.gauge list ref = ref [] and pxs : (int * Gauge.ext) list ref = ref [] and pbs : (int * BinNums.coq_Z) list ref = ref [] in
  let psx : (int * Gauge.sext) list ref = ref [] in
  (* the step being read *)
  let op : string list ref = ref [] in
  let farm = Hashtbl.create 8 and calc = Hashtbl.create 8 and recv = Hashtbl.create 8 and xenv = Hashtbl.create 8 and lenv = Hashtbl.create 8 and halt = Hashtbl.create 8 in
  let res = ref "" and pays : (string * string * string) list ref = ref [] and split : string list option ref = ref None in
  let gs : (int * Gauge.gauge) list ref = ref [] and es : Gauge.epoch list ref = ref [] and xs : (int * Gauge.ext) list ref = ref [] in
  let bs : (int * BinNums.coq_Z) list ref = ref [] in
  let sxs : (int * Gauge.sext) list ref = ref [] in
  let senv = Hashtbl.create 8 and srecs = Hashtbl.create 8 and height = ref "0" in
  (* the liquidity metadata each gauge was CREATED with (from the message; model side), by gauge index, for the
     whole case; the stored metadata of the gauge records (implementation side) as observed after the step *)
  let metas : (int, Gauge.gmeta) Hashtbl.t = Hashtbl.create 8 in
  let gms : (int, Gauge.gmeta) Hashtbl.t = Hashtbl.create 8 and fobs = Hashtbl.create 8 and fraw = Hashtbl.create 8 in
  let reset_step () = Hashtbl.reset gms; Hashtbl.reset fobs; Hashtbl.reset fraw; sxs := []; Hashtbl.reset senv; Hashtbl.reset srecs; height := "0"; op := []; Hashtbl.reset farm; Hashtbl.reset calc; Hashtbl.reset recv; Hashtbl.reset xenv; Hashtbl.reset lenv; Hashtbl.reset halt; res := ""; pays := [];
    split := None; gs := []; es := []; xs := []; bs := [] in
  let end_case () =
    if !case <> "" then begin
      incr cases; if !nt then incr nontrivial;
      Hashtbl.replace distinct (Digest.string (Buffer.contents sig_)) ()
    end in
  let pf pred kf detail = predfail ~case:!case ~step:!step ~pred ~kf ~detail in
  let cmpf field model impl = if model <> impl then mismatch ~case:!case ~step:!step ~field ~model ~impl in
  (* diff the model state against the implementation's records *)
  let diff_state () =
    let m = (!st).Gauge.r2_base in
    let isx = L.map snd (L.rev !sxs) in
    cmpf "stable-programs" (S.concat ";" (L.map show_sx (!st).Gauge.r2_sx)) (S.concat ";" (L.map show_sx isx));
    let igs = L.map snd (L.rev !gs) in
    cmpf "gauges.count" (string_of_int (L.length m.Gauge.r_gauges)) (string_of_int (L.length igs));
    (try L.iteri (fun i (mg, ig) -> cmpf (Printf.sprintf "gauge[%d]" i) (show_gauge mg) (show_gauge ig)) (L.combine m.Gauge.r_gauges igs)
     with Invalid_argument _ -> ());
    let ies = L.rev !es in
    cmpf "epochs" (S.concat ";" (L.map show_epoch m.Gauge.r_epochs)) (S.concat ";" (L.map show_epoch ies));
    let ixs = L.map snd (L.rev !xs) in
    cmpf "exts" (S.concat ";" (L.map show_ext m.Gauge.r_exts)) (S.concat ";" (L.map show_ext ixs));
    L.iter (fun (d, b) -> cmpf (Printf.sprintf "bal[%d]" d) (sz (m.Gauge.r_bal (zi d))) (sz b)) (L.rev !bs);
    (* the stored gauge record carries exactly the metadata of the message it was created with *)
    Hashtbl.iter (fun i (mm : Gauge.gmeta) ->
        match (try Some (Hashtbl.find gms i) with Not_found -> None) with
        | Some im ->
          bump "meta:compared";
          if not (Gauge.meta_eqb mm im) then cmpf (Printf.sprintf "gauge[%d].meta" i) (show_meta mm) (show_meta im)
        | None -> if i < L.length igs then cmpf (Printf.sprintf "gauge[%d].meta" i) (show_meta mm) "none") metas in
  (* custody on the implementation's observation, every denom *)
  let custody () =
    let igs = L.map snd (L.rev !gs) and ixs = L.map snd (L.rev !xs) and isx = L.map snd (L.rev !sxs) in
    L.iter (fun (d, b) ->
        if not (Gauge.holds_C19_custody2 (zi d) b igs ixs isx) then
          pf "custody" !dirty (Printf.sprintf "denom=%d_bal=%s_owed=%s" d (sz b) (sz (zadd (Gauge.owed_active (zi d) igs ixs) (Gauge.owed_sx_active (zi d) isx))))) (L.rev !bs) in
  let remember () = pgs := L.map snd (L.rev !gs); pxs := L.rev !xs; pbs := L.rev !bs; psx := L.rev !sxs in
  let apply_op2 (o : Gauge.gop2) (impl_class : string) field =
    let r = Gauge.rstep2 !st o in
    cmpf field (cls_of r) impl_class;
    (match r with Base.Ok (s', _) -> st := s' | _ -> ());
    r in
  let apply_op (o : Gauge.gop) (impl_class : string) field =
    let r = Gauge.rstep2 !st (Gauge.Base o) in
    cmpf field (cls_of r) impl_class;
    (match r with Base.Ok (s', _) -> st := s' | _ -> ());
    r in
  let process () =
    incr step; incr steps;
    (match !op with
     | [] ->
       (* the state the case starts from: swap-fee gauges made by the base fixture's pools *)
       st := Gauge.rinit2; dirty := "none";
       L.iter (fun (_, (g : Gauge.gauge)) ->
           if g.Gauge.g_swap then st := Gauge.rapply2 !st (Gauge.Base (Gauge.CreateSwap (g.Gauge.g_denom, g.Gauge.g_start, g.Gauge.g_dur)))) (L.rev !gs);
       (* balances the module account starts with enter as a credit *)
       L.iter (fun (d, b) -> if not (BinInt.Z.eqb b z0) then st := Gauge.rapply2 !st (Gauge.Base (Gauge.Donate (zi d, b)))) (L.rev !bs);
       bump "op:init"
     | "create" :: d :: dep :: total :: start :: now :: dur :: funds :: meta :: c :: _ ->
       bump ("op:create:" ^ c);
       let idx = L.length (!st).Gauge.r2_base.Gauge.r_gauges in
       let r = apply_op (Gauge.Create (zs d, zs dep, zs total, zs start, zs now, zs dur, zs funds, bool_of_tok meta)) c "create.class" in
       (match r, !op with
        | Base.Ok _, (_ :: _ :: _ :: _ :: _ :: _ :: _ :: _ :: _ :: _ :: mtoks) ->
          (match parse_meta mtoks with
           | Some mm ->
             Hashtbl.replace metas idx mm;
             bump (if not mm.Gauge.m_master then "meta:plain" else if mm.Gauge.m_child = [] then "meta:master:no-list"
                   else Printf.sprintf "meta:master:listed-%d" (L.length mm.Gauge.m_child))
           | None -> ())
        | _ -> ());
       (match !split with
        | Some ("panic" :: _) -> cmpf "split.class" (cls_of (Gauge.split (zs dep) (zs total))) "panic"
        | Some (_ :: items) ->
          let sp = L.map zs items in
          (match Gauge.split (zs dep) (zs total) with
           | Base.Ok msp -> cmpf "split" (S.concat "," (L.map sz msp)) (S.concat "," items)
           | o -> cmpf "split.class" (cls_of o) "ok");
          if not (Gauge.holds_C19_split (zs dep) (zs total) sp) then pf "split_sum" "none" (dep ^ "/" ^ total);
          bump "split:checked"
        | _ -> ())
     | "createswap" :: d :: now :: dur :: c :: _ ->
       bump "op:createswap"; ignore (apply_op (Gauge.CreateSwap (zs d, zs now, zs dur)) c "createswap.class")
     | "extcreate" :: kind :: d :: total :: days :: minlock :: now :: funds :: ok :: c :: _ ->
       bump ("op:extcreate:" ^ kind ^ ":" ^ c);
       ignore (apply_op (Gauge.ExtCreate (zs kind, zs d, zs total, zs days, zs minlock, zs now, zs funds, bool_of_tok ok)) c "extcreate.class")
     | "screate" :: app :: d :: total :: days :: accept :: now :: funds :: ok :: c :: _ ->
       bump ("op:screate:" ^ c);
       ignore (apply_op2 (Gauge.SCreate (zs app, zs d, zs total, zs days, zs accept, zs now, zs funds, bool_of_tok ok)) c "screate.class")
     | "donate" :: d :: amt :: _ ->
       bump "op:donate"; ignore (apply_op (Gauge.Donate (zs d, zs amt)) "ok" "donate.class")
     | "begin" :: now :: _ ->
       let now = zs now in
       let m = (!st).Gauge.r2_base in
       let msx = (!st).Gauge.r2_sx in
       let h = zs !height in
       let parse_recs toks = (match toks with
           | tot :: n :: rest -> let (g4, _) = groups 4 (int_of_string n) rest in
             (zs tot, L.map (function [a; ht; amt; hold] -> { Gauge.sr_acct = zs a; sr_height = zs ht; sr_amount = zs amt; sr_hold = zs hold } | _ -> failwith "senv") g4)
           | _ -> failwith "senv line") in
       let senvs = L.mapi (fun i _ -> try parse_recs (Hashtbl.find senv i) with Not_found -> (z0, [])) msx in
       L.iter (fun e -> if not (Gauge.senv_wf e) then cmpf "env.senv_wf" "true" "false") senvs;
       let ng = L.length m.Gauge.r_gauges and nx = L.length m.Gauge.r_exts in
       (* the environment of gauge i: for a gauge created by a message of this case the MODEL computes it from the
          message's metadata and the per-pool observations; otherwise (swap-fee gauges) the recorded one *)
       let fenv_cache = Hashtbl.create 8 in
       let fenv i =
         try Hashtbl.find fenv_cache i with Not_found ->
           let recorded () = (try parse_farm (Hashtbl.find farm i) with Not_found -> Gauge.FarmErr) in
           let e = (match (try Some (Hashtbl.find metas i) with Not_found -> None), (try Some (Hashtbl.find fobs i) with Not_found -> None) with
               | Some mm, Some toks ->
                 (match parse_fobs toks with
                  | Some (others, obs) ->
                    (* the farmed values recomputed by the MODEL (Model/FarmValue.v) from the raw reserves, supplies,
                       farmed pool coins and oracle data, against the values the implementation returned *)
                    let obs_used = ref obs in
                    (match (try parse_fraw (Hashtbl.find fraw i) with Not_found -> None) with
                     | Some (pools, fs) ->
                       let mobs = FarmValue.farm_obs mm.Gauge.m_pool pools fs in
                       (* eligibility (and with it holds_C19_share) is judged on the MODEL's values: true farmed value *)
                       obs_used := mobs;
                       bump "farmvalue:compared";
                       L.iter (fun (p : FarmValue.pool_raw) ->
                           if BinInt.Z.eqb p.FarmValue.p_id mm.Gauge.m_pool then ()
                           else if L.exists (fun (_, vals) -> L.exists (fun (q, _) -> BinInt.Z.eqb q p.FarmValue.p_id) vals) mobs then
                             bump (match p.FarmValue.p_q, p.FarmValue.p_b with
                                 | Some _, _ -> "farmvalue:child-position:quote-coin-priced"
                                 | None, Some _ -> if BinInt.Z.eqb p.FarmValue.p_rx p.FarmValue.p_ry then "farmvalue:child-position:base-coin-priced:reserves-1:1"
                                   else "farmvalue:child-position:base-coin-priced:reserves-not-1:1"
                                 | None, None -> "farmvalue:child-position:unpriced")) pools;
                       cmpf (Printf.sprintf "farmvalue[%d]" i) (show_fobs mobs) (show_fobs obs);
                       (* farmers capped by their master position / by their child position, with an unpriced quote coin in a child *)
                       if mm.Gauge.m_master then begin
                         let ids = Gauge.child_ids mm others in
                         let unq = L.exists (fun (p : FarmValue.pool_raw) -> p.FarmValue.p_q = None && p.FarmValue.p_b <> None
                                                                             && L.exists (fun q -> BinInt.Z.eqb q p.FarmValue.p_id) ids) pools in
                         L.iter (fun ((_, v), vals) ->
                             let c = Gauge.child_value ids vals in
                             if BinInt.Z.ltb z0 c then
                               bump ((if BinInt.Z.leb v c then "farmvalue:farmer-capped-by-master" else "farmvalue:farmer-capped-by-child")
                                     ^ (if unq then ":child-quote-unpriced" else ""))) mobs
                       end
                     | None -> bump "farmvalue:no-raw");
                    let e = Gauge.farm_env_of mm others !obs_used in
                    (* which populations this gauge sees: master farmers with a listed child / an unlisted pool only / nothing else *)
                    if mm.Gauge.m_master && mm.Gauge.m_child <> [] then begin
                      let ids = Gauge.child_ids mm others in
                      L.iter (fun (_, vals) ->
                          let listed = L.exists (fun (p, v) -> L.exists (fun q -> BinInt.Z.eqb p q) ids && BinInt.Z.ltb z0 v) vals in
                          let unl = L.exists (fun (p, v) -> not (L.exists (fun q -> BinInt.Z.eqb p q) ids) && BinInt.Z.ltb z0 v) vals in
                          bump (if listed && unl then "listed-gauge:farmer:master+listed+unlisted" else if listed then "listed-gauge:farmer:master+listed"
                                else if unl then "listed-gauge:farmer:master+unlisted-only" else "listed-gauge:farmer:master-only")) obs
                    end;
                    bump "env:from-message-meta"; e
                  | None -> bump "env:from-message-meta:err"; Gauge.FarmErr)
               | _ -> recorded ()) in
           Hashtbl.replace fenv_cache i e; e in
       let farms = L.init ng fenv in
       let recvs = L.init ng (fun i -> match (try Hashtbl.find recv i with Not_found -> ["err"]) with
           | "ok" :: a :: _ -> Base.Ok (zs a) | "panic" :: _ -> Base.Panic | _ -> Base.Err (zi 1)) in
       let halted i = (try Hashtbl.find halt i with Not_found -> false) in
       L.iteri (fun i (x : Gauge.ext) -> if halted i then bump ("halt:kind" ^ sz x.Gauge.x_kind)) m.Gauge.r_exts;
       let xenvs = L.init nx (fun i -> match (try Hashtbl.find xenv i with Not_found -> ["0"; "0"]) with
           | tot :: n :: rest -> let (g3, _) = groups 3 (int_of_string n) rest in
             { Gauge.xe_total = zs tot; xe_pop = L.map (function [a; net; cr] -> ((zs a, zs net), zs cr) | _ -> failwith "xenv") g3;
               xe_halt = halted i }
           | _ -> failwith "xenv line") in
       let lenvs = L.init nx (fun i -> match (try Hashtbl.find lenv i with Not_found -> ["0"; "0"; "noprice"]) with
           | ok :: n :: rest -> let (g2, rest') = groups 2 (int_of_string n) rest in
             { Gauge.le_ok = bool_of_tok ok; le_new = L.map (function [a; v] -> (zs a, zs v) | _ -> failwith "lenv") g2;
               le_price = (match rest' with "price" :: twa :: dec :: _ -> Some (zs twa, zs dec) | _ -> None); le_halt = halted i }
           | _ -> failwith "lenv line") in
       let benv = { Gauge.be_farm = farms; be_recv = recvs; be_ext = xenvs; be_lend = lenvs } in
       let o = Gauge.Begin (now, benv) in
       (* the hypothesis op_wf of the custody theorems on the recorded environment: non-negative fee transfers,
          every program's population consistent with its recorded total *)
       if not (Gauge.op_wf o) then cmpf "env.op_wf" "true" "false";
       (* known-finding class met by this step (on the state it starts from); the class predicate re-runs the
          hook: skip it where it is false by definition (class 4 needs a lend program) *)
       let k4 = L.exists (fun (x : Gauge.ext) -> BinInt.Z.eqb x.Gauge.x_kind (zi 2)) m.Gauge.r_exts && Gauge.kf4_begin now benv m in
       if !dirty = "none" && k4 then dirty := "kf_C19_4";
       if k4 then bump "kf:C19_4:met";
       (* the hypothesis of c19_program_safe / op_wf on the recorded populations, per program that is due *)
       L.iteri (fun i (x : Gauge.ext) ->
           if x.Gauge.x_active && BinInt.Z.ltb x.Gauge.x_next now && BinInt.Z.ltb x.Gauge.x_kind (zi 2) then begin
             let e = L.nth xenvs i in
             bump (if Gauge.xenv_wf e then "program:population-consistent" else "program:population-INCONSISTENT");
             if not (Gauge.xenv_wf e) then cmpf "env.population_consistent" "true" "false";
             bump (if BinInt.Z.ltb (zs "250000000000000000") (BinInt.Z.mul x.Gauge.x_avail (zi (L.length e.Gauge.xe_pop)))
                   then "program:amount-above-former-safe-bound" else "program:amount-below-former-safe-bound")
           end) m.Gauge.r_exts;
       (* the implementation's own share calculation for the allocation that is due: diff + share predicate *)
       Hashtbl.iter (fun i toks ->
           match toks with
           | coins :: c :: rest ->
             let coins = zs coins in
             let env = fenv i in
             (match env with
              | Gauge.FarmMaster (fs, _) ->
                let el = Gauge.eligible env in
                let pos = L.length (L.filter (fun (_, s) -> BinInt.Z.ltb z0 s) el) in
                bump (if fs = [] then "master:no-farmers" else if pos = 0 then "master:eligible-none"
                      else if pos = L.length el then "master:eligible-all" else "master:eligible-some")
              | Gauge.FarmPlain fs -> bump (if fs = [] then "plain:no-farmers" else "plain:farmers")
              | Gauge.FarmErr -> bump "farm:err");
             if BinInt.Z.leb (zs "9007199254740992") coins then bump "calc:allocation>=2^53";
             let mo = Gauge.farm_calc env coins in
             cmpf (Printf.sprintf "calc[%d].class" i) (cls_of mo) c;
             bump ("calc:" ^ c);
             if c = "ok" then begin
               let n = int_of_string (L.hd rest) in
               let (g2, _) = groups 2 n (L.tl rest) in
               let ipays = L.map (function [a; r] -> (zs a, zs r) | _ -> failwith "calc") g2 in
               (match mo with Base.Ok mp -> cmpf (Printf.sprintf "calc[%d]" i) (show_pays mp) (show_pays ipays) | _ -> ());
               let el = eligible env in
               let total = L.fold_left (fun acc (_, s) -> zadd acc s) z0 el in
               L.iter (fun (a, r) ->
                   let s = try L.assoc a el with Not_found -> z0 in
                   bump "share:checked";
                   if not (Gauge.holds_C19_share coins total s r) then
                     (* class C19-F1 is about the rounding of a positive share: an account WITHOUT eligible value that is
                        paid is never inside it *)
                     pf "share" (if BinInt.Z.ltb z0 s && Gauge.kf_C19_1 coins total then "kf_C19_1" else "none")
                       (Printf.sprintf "coins=%s_total=%s_s=%s_payout=%s" (sz coins) (sz total) (sz s) (sz r))) ipays
             end
           | _ -> ()) calc;
       let r = Gauge.rstep2 !st (Gauge.Begin2 (now, benv, h, senvs)) in
       bump ("op:begin:" ^ cls_of r);
       (* stable-mint programs: which were due, what step 5 made of the entries *)
       L.iteri (fun i (x : Gauge.sext) ->
           let (total, recs) = L.nth senvs i in
           if x.Gauge.sx_active && BinInt.Z.ltb x.Gauge.sx_next now then begin
             bump (if BinInt.Z.ltb x.Gauge.sx_count x.Gauge.sx_days then "stable:due" else "stable:due:expired");
             if L.exists (fun (r : Gauge.srec) -> BinInt.Z.ltb total (if BinInt.Z.leb r.Gauge.sr_amount r.Gauge.sr_hold then r.Gauge.sr_amount else r.Gauge.sr_hold)) recs
             then bump "stable:eligible-above-total-minted"
           end;
           let mc = Gauge.combined_for h msx x.Gauge.sx_app recs in
           if L.length mc < L.length recs then bump "stable:entries-combined";
           (match (try Some (Hashtbl.find srecs i) with Not_found -> None) with
            | Some (n :: rest) ->
              let (g3, _) = groups 3 (int_of_string n) rest in
              let il = L.map (function [a; ht; amt] -> { Gauge.sr_acct = zs a; sr_height = zs ht; sr_amount = zs amt; sr_hold = z0 } | _ -> failwith "srecs") g3 in
              cmpf (Printf.sprintf "stable-entries[%d]" i) (show_srecs mc) (show_srecs il)
            | _ -> ())) msx;
       (* the hook after fix b2d3331: step 1 (epochs and gauges) fails -> the whole hook is dropped; one of the
          program steps fails -> only that step is dropped.  Which steps kept their writes (model's view; the
          diff of the program records and balances below is what ties it to the implementation) *)
       (match Gauge.begin_steps_ok now benv m with
        | [s1; s2; s3; s4] ->
          let due k = L.exists (fun (x : Gauge.ext) -> BinInt.Z.eqb x.Gauge.x_kind (zi k) && x.Gauge.x_active && BinInt.Z.ltb x.Gauge.x_next now) m.Gauge.r_exts in
          if not s1 then bump "hook:epochs-step-failed:whole-hook-dropped";
          if s1 && due 0 then bump (if s2 then "hook:locker-step:kept" else "hook:locker-step:rolled-back");
          if s1 && due 1 then bump (if s3 then "hook:vault-step:kept" else "hook:vault-step:rolled-back");
          if s1 && due 2 then bump (if s4 then "hook:lend-step:kept" else "hook:lend-step:rolled-back");
          if s1 && not (s2 && s3 && s4) then bump "hook:some-program-step-rolled-back:others-kept";
          (* an error return AFTER programs before it were processed: a due program precedes the first halted one *)
          let partial k =
            let rec go i seen_due = function
              | [] -> false
              | (x : Gauge.ext) :: rest ->
                if not (BinInt.Z.eqb x.Gauge.x_kind (zi k)) then go (i + 1) seen_due rest
                else if halted i then seen_due
                else go (i + 1) (seen_due || (x.Gauge.x_active && BinInt.Z.ltb x.Gauge.x_next now)) rest in
            go 0 false m.Gauge.r_exts in
          if s1 && not s2 && partial 0 then bump "hook:locker-step:error-after-earlier-program-processed:rolled-back";
          if s1 && not s3 && partial 1 then bump "hook:vault-step:error-after-earlier-program-processed:rolled-back";
          if s1 && not s4 && partial 2 then bump "hook:lend-step:error-after-earlier-program-processed:rolled-back"
        | _ -> ());
       (match r with
        | Base.Ok (s', dp) ->
          st := s';
          if L.exists2 (fun (a : Gauge.sext) (b : Gauge.sext) -> not (BinInt.Z.eqb a.Gauge.sx_avail b.Gauge.sx_avail)) msx s'.Gauge.r2_sx then bump "stable:paid";
          (* payouts per (denom, account) *)
          let agg = Hashtbl.create 16 in
          L.iter (fun ((d, a), v) -> let k = (sz d, sz a) in
                   Hashtbl.replace agg k (zadd v (try Hashtbl.find agg k with Not_found -> z0))) dp;
          let ml = L.sort compare (Hashtbl.fold (fun (d, a) v acc -> if BinInt.Z.eqb v z0 then acc else (d ^ ":" ^ a ^ ":" ^ sz v) :: acc) agg []) in
          let il = L.sort compare (L.map (fun (d, a, v) -> d ^ ":" ^ a ^ ":" ^ v) !pays) in
          cmpf "payouts" (S.concat "," ml) (S.concat "," il);
          if ml <> [] then nt := true
        | _ ->
          (* step 1 failed: the outer wrapper recovers the panic and drops every write: nothing may have been paid *)
          cmpf "payouts" "" (S.concat "," (L.map (fun (d, a, v) -> d ^ ":" ^ a ^ ":" ^ v) !pays)));
       (* predicates on the implementation's before / after records *)
       let igs = L.map snd (L.rev !gs) in
       (try L.iter2 (fun (g : Gauge.gauge) (g' : Gauge.gauge) ->
            let alloc = if g.Gauge.g_swap then g.Gauge.g_deposit else Gauge.epoch_allocation g in
            if not (BinInt.Z.eqb g.Gauge.g_triggered g'.Gauge.g_triggered) then bump (if g.Gauge.g_swap then "trigger:swap" else "trigger:gauge");
            if not (Gauge.holds_C19_trigger g g' alloc) then
              pf "epoch_cap" "none" (Printf.sprintf "%s->%s_alloc=%s" (show_gauge g) (show_gauge g') (sz alloc))) !pgs
            (L.filteri (fun i _ -> i < L.length !pgs) igs)
        with Invalid_argument _ -> ());
       L.iter (fun (d, b') ->
           let dz = zi d in
           let b = try L.assoc d !pbs with Not_found -> z0 in
           let paid = L.fold_left (fun acc (pd, _, v) -> if pd = string_of_int d then zadd acc (zs v) else acc) z0 !pays in
           let booked_g = try L.fold_left2 (fun acc (g : Gauge.gauge) (g' : Gauge.gauge) ->
               if BinInt.Z.eqb g.Gauge.g_denom dz then zadd acc (zsub g'.Gauge.g_distributed g.Gauge.g_distributed) else acc) z0 !pgs
               (L.filteri (fun i _ -> i < L.length !pgs) igs) with Invalid_argument _ -> z0 in
           let recvd = try L.fold_left2 (fun acc (g : Gauge.gauge) (g' : Gauge.gauge) ->
               if BinInt.Z.eqb g.Gauge.g_denom dz && g.Gauge.g_swap then
                 zadd acc (zadd (zsub g'.Gauge.g_deposit g.Gauge.g_deposit) (zsub g'.Gauge.g_distributed g.Gauge.g_distributed)) else acc) z0 !pgs
               (L.filteri (fun i _ -> i < L.length !pgs) igs) with Invalid_argument _ -> z0 in
           let booked_x = L.fold_left (fun acc (i, (x' : Gauge.ext)) ->
               match (try Some (L.assoc i !pxs) with Not_found -> None) with
               | Some (x : Gauge.ext) when BinInt.Z.eqb x.Gauge.x_denom dz -> zadd acc (zsub x.Gauge.x_avail x'.Gauge.x_avail)
               | _ -> acc) z0 (L.rev !xs) in
           let booked_s = L.fold_left (fun acc (i, (x' : Gauge.sext)) ->
               match (try Some (L.assoc i !psx) with Not_found -> None) with
               | Some (x : Gauge.sext) when BinInt.Z.eqb x.Gauge.sx_denom dz -> zadd acc (zsub x.Gauge.sx_avail x'.Gauge.sx_avail)
               | _ -> acc) z0 (L.rev !sxs) in
           let booked_x = zadd booked_x booked_s in
           if not (Gauge.holds_C19_paid paid (zadd booked_g booked_x) recvd b b') then
             pf "paid_le_booked" !dirty
               (Printf.sprintf "denom=%d_paid=%s_booked=%s_recv=%s_bal=%s->%s" d (sz paid) (sz (zadd booked_g booked_x)) (sz recvd) (sz b) (sz b'))) (L.rev !bs)
     | o :: _ -> bump ("op:unknown:" ^ o));
    diff_state ();
    custody ();
    remember () in
  L.iter (fun line ->
      match tokens line with
      | "case" :: id :: kind :: _ ->
        end_case (); case := id; step := -1; nt := false; Buffer.clear sig_; Buffer.add_string sig_ kind; reset_step (); Hashtbl.reset metas;
        pgs := []; pxs := []; pbs := []; psx := []; bump ("kind:" ^ kind)
      | "op" :: rest -> op := rest; Buffer.add_string sig_ line
      | "env" :: k :: _ -> bump ("env:" ^ k); Buffer.add_string sig_ line
      | "farm" :: i :: rest -> Hashtbl.replace farm (int_of_string i) rest; Buffer.add_string sig_ line
      | "fobs" :: i :: rest -> Hashtbl.replace fobs (int_of_string i) rest
      | "fraw" :: i :: rest -> Hashtbl.replace fraw (int_of_string i) rest
      | "gm" :: i :: rest -> (match parse_meta rest with Some mm -> Hashtbl.replace gms (int_of_string i) mm | None -> ())
      | "calc" :: i :: rest -> Hashtbl.replace calc (int_of_string i) rest
      | "recv" :: i :: rest -> Hashtbl.replace recv (int_of_string i) rest; Buffer.add_string sig_ line
      | "xenv" :: i :: rest -> Hashtbl.replace xenv (int_of_string i) rest; Buffer.add_string sig_ line
      | "lenv" :: i :: rest -> Hashtbl.replace lenv (int_of_string i) rest; Buffer.add_string sig_ line
      | "halt" :: i :: b :: _ -> Hashtbl.replace halt (int_of_string i) (bool_of_tok b); Buffer.add_string sig_ line
      | "res" :: c :: _ -> res := c
      | "pay" :: d :: a :: v :: _ -> pays := (d, a, v) :: !pays
      | "split" :: rest -> split := Some rest
      | "g" :: i :: rest -> gs := (int_of_string i, parse_gauge rest) :: !gs
      | "e" :: dur :: fresh :: cur :: cest :: _ ->
        es := { Gauge.e_fresh = bool_of_tok fresh; e_cur = zs cur; e_cest = zs cest; e_dur = zs dur } :: !es
      | "x" :: i :: kind :: den :: avail :: act :: cnt :: next :: _ ->
        xs := (int_of_string i, { Gauge.x_kind = zs kind; x_denom = zs den; x_avail = zs avail; x_active = bool_of_tok act;
                                  x_days = z0; x_count = zs cnt; x_next = zs next; x_minlock = z0 }) :: !xs
      | "b" :: d :: v :: _ -> bs := (int_of_string d, zs v) :: !bs
      | "sx" :: i :: app :: den :: avail :: act :: cnt :: next :: _ ->
        sxs := (int_of_string i, { Gauge.sx_app = zs app; sx_denom = zs den; sx_avail = zs avail; sx_active = bool_of_tok act;
                                   sx_days = z0; sx_count = zs cnt; sx_next = zs next; sx_accept = z0 }) :: !sxs
      | "height" :: v :: _ -> height := v; Buffer.add_string sig_ line
      | "senv" :: i :: rest -> Hashtbl.replace senv (int_of_string i) rest; Buffer.add_string sig_ line
      | "srecs" :: i :: rest -> Hashtbl.replace srecs (int_of_string i) rest
      | "end" :: _ -> process (); reset_step ()
      | _ -> ()) lines;
  end_case ();
  finish ~cases:!cases ~steps:!steps ~nontrivial:!nontrivial

(* ---------------- SplitTotalAmountPerEpoch alone ---------------- *)
let run_split (path : string) =
  let lines = read_lines path in
  let cases = ref 0 and nontrivial = ref 0 in
  L.iter (fun line ->
      match tokens line with
      | "s" :: total :: epochs :: c :: n :: items ->
        incr cases;
        let case = string_of_int (!cases - 1) in
        let m = Gauge.split (zs total) (zs epochs) in
        if cls_of m <> c then mismatch ~case ~step:0 ~field:"split.class" ~model:(cls_of m) ~impl:c;
        bump ("split:" ^ c);
        if c = "ok" then begin
          (match m with Base.Ok sp -> let ms = S.concat "," (L.map sz sp) and is = S.concat "," items in
                         if ms <> is then mismatch ~case ~step:0 ~field:"split" ~model:ms ~impl:is | _ -> ());
          if not (Gauge.holds_C19_split (zs total) (zs epochs) (L.map zs items)) then
            predfail ~case ~step:0 ~pred:"split_sum" ~kf:"none" ~detail:(total ^ "/" ^ epochs);
          if int_of_string n > 0 then begin
            incr nontrivial;
            bump (if Z.equal (Z.rem (Z.of_string total) (Z.of_string epochs)) Z.zero then "split:divisible" else "split:remainder")
          end
        end;
        Hashtbl.replace distinct (Digest.string (total ^ "/" ^ epochs)) ()
      | _ -> ()) lines;
  finish ~cases:!cases ~steps:!cases ~nontrivial:!nontrivial

let () = Conv.register "C19" run; Conv.register "C19-split" run_split
