(* C11 runner: replays english-auction and limit-bid traces on the extracted models
   (English.v, LimitBid.v), threading the MODEL state through the whole history and diffing the
   projection after every step; evaluates the extracted predicates holds_C11_* on the
   IMPLEMENTATION's observations (no known-finding class is left for C11: every failure is a violation). *)
open Conv

let zs = string_of_z
let zi = z_of_int
let zeq a b = zs a = zs b

(* a ledger from a table (account id, denom id) -> amount *)
let ledger_of (tbl : (int * int, BinNums.coq_Z) Hashtbl.t) : FLedger.ledger =
  let t = Hashtbl.copy tbl in
  fun a d -> (try Hashtbl.find t (int_of_z a, int_of_z d) with Not_found -> BinNums.Z0)

(* ------------------------------------------------------------------------------------------ *)
(* english auctions                                                                            *)
type eobs = { found : bool; sell : string; buy : string; bidder : int; nbids : int; bid_end : string;
              end_ : string; status : string; nactive : string;  (* generation 1: user biddings in the active store; -1 otherwise *)
              specials : string array; (* MOD COLL EXT TM AUC1 NF x (bid, lot) *)
              bals : (string * string) array }

let parse_eobs nb toks =
  match toks with
  | f :: sell :: buy :: bidder :: nbids :: bid_end :: end_ :: status :: nactive :: rest ->
    let arr = Array.of_list rest in
    if Array.length arr <> 12 + 2 * nb then failwith "obs: wrong number of balances";
    { found = bool_of_tok f; sell; buy; bidder = int_of_string bidder; nbids = int_of_string nbids; bid_end; end_; status; nactive;
      specials = Array.sub arr 0 12;
      bals = Array.init nb (fun i -> (arr.(12 + 2 * i), arr.(13 + 2 * i))) }
  | _ -> failwith "bad obs"

let variant_of = function
  | "V1S" -> English.V1S | "V1D" -> English.V1D | "V2S" -> English.V2S | "V2X" -> English.V2X | "V2D" -> English.V2D
  | s -> failwith ("variant " ^ s)

type ecase = {
  id : string; v : English.variant; vname : string; nb : int; bd : int; ld : int;
  mutable st : English.state option;            (* the model *)
  mutable ia : English.auction option;          (* the auction record as observed on the implementation *)
  mutable prev : eobs option; mutable init : eobs option;
  mutable accepted : (BinNums.coq_Z * BinNums.coq_Z) list;
  mutable pending : (string list) option;      (* the op line awaiting its observation *)
  mutable estep : int; mutable refunds : int; sigb : Buffer.t;
  mutable esm_closed : bool;   (* the IMPLEMENTATION's record of a generation-1 auction vanished at a hook run under the emergency shutdown *)
  mutable esm_refunds : int;   (* emergency-shutdown closes with a standing bid *)
  fac : BinNums.coq_Z; edur : BinNums.coq_Z; ebdur : BinNums.coq_Z; sell0 : BinNums.coq_Z; buy0 : BinNums.coq_Z; now0 : BinNums.coq_Z }

(* MOD, COLL, EXT, TM, AUC1 = the generation-1 auction module account: the lot source of the
   generation-2 surplus close (the real start put the lot there).  For V1S / V1D that account IS
   the auction's own module account MOD: it is observed twice and diffed once (as MOD).
   NF = the collector's net-fee record of (app, cmst): modelled (and diffed) for generation 1 only *)
let special_ids = [| -1; -2; -3; -4; -5; -6 |]

let eledger (c : ecase) (o : eobs) : FLedger.ledger =
  let t = Hashtbl.create 32 in
  Array.iteri (fun i acct ->
      Hashtbl.replace t (acct, c.bd) (z_of_string o.specials.(2 * i));
      Hashtbl.replace t (acct, c.ld) (z_of_string o.specials.(2 * i + 1))) special_ids;
  Array.iteri (fun i (b, l) -> Hashtbl.replace t (i, c.bd) (z_of_string b); Hashtbl.replace t (i, c.ld) (z_of_string l)) o.bals;
  ledger_of t

let impl_auction (c : ecase) (o : eobs) : English.auction =
  if o.found then
    { English.var = c.v; bid_denom = zi c.bd; lot_denom = zi c.ld; sell = z_of_string o.sell; buy = z_of_string o.buy;
      bidder = (if o.bidder >= 0 then Some (zi o.bidder) else None); bids = c.accepted;
      bid_end = z_of_string o.bid_end; end_ = z_of_string o.end_; status = z_of_string o.status;
      factor = c.fac; dur = c.edur; bid_dur = c.ebdur }
  else match c.ia with
    | Some a ->
      if c.esm_closed then English.set_esm_closed { a with English.bids = c.accepted }
      else English.set_closed { a with English.bids = c.accepted }
    | None -> failwith "auction never observed"

let eng_check (c : ecase) (o : eobs) =
  let case = c.id and step = c.estep in
  let mm field model impl = if model <> impl then mismatch ~case ~step ~field ~model ~impl in
  (* ---- the model, after the pending op ---- *)
  (match c.st with
   | None ->
     let a0 = English.init c.v (zi c.bd) (zi c.ld) c.sell0 c.buy0 c.now0 c.fac c.edur c.ebdur in
     c.st <- Some (a0, eledger c o); c.init <- Some o
   | Some _ -> ());
  let pre_ia = c.ia in
  let pre_obs = c.prev in
  (match c.pending with
   | Some ("op" :: "bid" :: who :: denom :: amt :: now :: xd :: xa :: res :: []) ->
     bump ("op:bid:" ^ c.vname); bump ("bid:" ^ res);
     Buffer.add_string c.sigb (Printf.sprintf "b%s:%s:%s;" who denom amt);
     let s = (match c.st with Some s -> s | None -> assert false) in
     let r = English.step s (English.Bid (z_of_string who, z_of_string denom, z_of_string amt, z_of_string now, z_of_string xd, z_of_string xa)) in
     (match r with
      | Base.Ok s' -> mm "result" "ok" res; c.st <- Some s'
      | Base.Err code -> mm "result" "err" res; bump ("bid:err" ^ zs code)
      | Base.Panic -> mm "result" "panic" res);
     if res = "ok" then c.accepted <- (z_of_string who, z_of_string amt) :: c.accepted
   | Some ("op" :: "tick" :: now :: tm :: res :: []) ->
     bump ("op:tick:" ^ c.vname);
     Buffer.add_string c.sigb "t;";
     let s = (match c.st with Some s -> s | None -> assert false) in
     mm "result" "ok" res;   (* the hooks recover panics and swallow errors *)
     (match English.step s (English.Tick (z_of_string now, bool_of_tok tm)) with
      | Base.Ok s' ->
        if zs (fst s').English.status = "2" && zs (fst s).English.status <> "2" then bump "tick:closed"
        else if zs (fst s').English.end_ <> zs (fst s).English.end_ then bump "tick:restart";
        c.st <- Some s'
      | Base.Err code -> bump ("tick:close-failed-err" ^ zs code)
      | Base.Panic -> bump "tick:close-panic")
   | Some ("op" :: "esm" :: now :: tm :: res :: []) ->
     (* the block hook with the app's emergency shutdown on *)
     bump ("op:esm:" ^ c.vname);
     Buffer.add_string c.sigb "e;";
     let s = (match c.st with Some s -> s | None -> assert false) in
     mm "result" "ok" res;
     (* judged on the implementation: its record of a generation-1 auction was there before this hook and is gone after it *)
     (match pre_obs with
      | Some po when po.found && not o.found && English.is_v1 c.v -> c.esm_closed <- true
      | _ -> ());
     (match English.step s (English.TickEsm (z_of_string now, bool_of_tok tm)) with
      | Base.Ok s' ->
        let st' = zs (fst s').English.status and st = zs (fst s).English.status in
        if st' = "3" && st <> "3" then begin
          (match (fst s).English.bidder with
           | Some _ -> c.esm_refunds <- c.esm_refunds + 1; bump ("esm:closed-with-standing-bid:" ^ c.vname)
           | None -> bump ("esm:closed-without-bid:" ^ c.vname))
        end
        else if st = "3" || st = "2" then bump "esm:hook-after-the-end"
        else if st' = "2" then bump "esm:gen2-closed-as-usual"
        else if zs (fst s').English.end_ <> zs (fst s).English.end_ then bump "esm:gen2-restart-as-usual"
        else bump "esm:gen2-not-due";
        c.st <- Some s'
      | Base.Err code -> bump ("esm:close-failed-err" ^ zs code)
      | Base.Panic -> bump "esm:close-panic")
   | Some l -> failwith ("bad op line: " ^ S.concat " " l)
   | None -> ());
  (* ---- diff the projection ---- *)
  let (ma, ml) = (match c.st with Some s -> s | None -> assert false) in
  let closed = English.ended ma in
  if English.is_v1 c.v then mm "active_biddings" (zs (English.active_biddings ma)) o.nactive;
  mm "found" (tok_of_bool (not closed)) (tok_of_bool o.found);
  if o.found && not closed then begin
    mm "sell" (zs ma.English.sell) o.sell; mm "buy" (zs ma.English.buy) o.buy;
    mm "bidder" (match ma.English.bidder with Some b -> zs b | None -> "-1") (string_of_int o.bidder);
    mm "nbids" (string_of_int (L.length ma.English.bids)) (string_of_int o.nbids);
    mm "end" (zs ma.English.end_) o.end_;
    if English.is_v1 c.v then mm "bid_end" (zs ma.English.bid_end) o.bid_end;
    mm "status" (zs ma.English.status) o.status
  end;
  Array.iteri (fun i acct ->
      (* the tokenmint account is compared too: bids are moved there and burnt *)
      if not (acct = -5 && English.is_v1 c.v) && not (acct = -6 && not (English.is_v1 c.v)) then begin
        mm (Printf.sprintf "bal[%d,bid]" acct) (zs (ml (zi acct) (zi c.bd))) o.specials.(2 * i);
        mm (Printf.sprintf "bal[%d,lot]" acct) (zs (ml (zi acct) (zi c.ld))) o.specials.(2 * i + 1)
      end) special_ids;
  Array.iteri (fun i (b, l) ->
      mm (Printf.sprintf "bal[%d,bid]" i) (zs (ml (zi i) (zi c.bd))) b;
      mm (Printf.sprintf "bal[%d,lot]" i) (zs (ml (zi i) (zi c.ld))) l) o.bals;
  (* ---- the property, on the implementation's observation ---- *)
  let ia = impl_auction c o in
  let o0 = (match c.init with Some x -> x | None -> o) in
  let pf pred detail = predfail ~case ~step ~pred ~kf:"none" ~detail in
  if not (English.holds_C11_custody ia (z_of_string o0.specials.(0)) (z_of_string o.specials.(0))) then
    pf "holds_C11_custody" (Printf.sprintf "module_bid_denom=%s_at_start=%s_held=%s" o.specials.(0) o0.specials.(0) (zs (English.held ia)));
  (* the lot source (generation-2 surplus): untouched while open, out of exactly the lot after the
     close; the collector's lot-denom balance never moves.  specials: 3 = COLL lot, 9 = AUC1 lot *)
  if not (English.holds_C11_source ia (z_of_string o0.specials.(9)) (z_of_string o0.specials.(3)) (z_of_string o.specials.(9)) (z_of_string o.specials.(3))) then
    pf "holds_C11_source" (Printf.sprintf "auction_v1_module_lot0=%s_now=%s_collector_lot0=%s_now=%s_lot=%s" o0.specials.(9) o.specials.(9) o0.specials.(3) o.specials.(3) (zs ia.English.sell));
  (match c.pending, pre_ia, pre_obs with
   | Some ("op" :: "bid" :: who :: _ :: amt :: _ :: _ :: _ :: "ok" :: []), Some pa, Some po ->
     if not (English.holds_C11_improves pa (z_of_string amt)) then
       pf "holds_C11_improves" (Printf.sprintf "accepted=%s_over_sell=%s_buy=%s" amt po.sell po.buy);
     (match pa.English.bidder with
      | Some p ->
        c.refunds <- c.refunds + 1; bump "bid:outbid";
        let pi = int_of_z p in
        let paid = if English.reverse c.v then pa.English.buy else z_of_string amt in
        if not (English.holds_C11_refund pa (z_of_string who) paid (z_of_string (fst po.bals.(pi))) (z_of_string (fst o.bals.(pi)))) then
          pf "holds_C11_refund" (Printf.sprintf "prev=%d_before=%s_after=%s_standing=%s" pi (fst po.bals.(pi)) (fst o.bals.(pi)) (zs pa.English.buy))
      | None -> ())
   | _ -> ());
  let is_closed = zs ia.English.status = "2" in
  let is_esm = zs ia.English.status = "3" in
  (* the emergency-shutdown end: the lot went back to the collector and onto the net-fee record.
     specials: 1 = MOD lot, 3 = COLL lot, 11 = NF lot *)
  if is_esm then begin
    if not (English.holds_C11_esm_lot ia (z_of_string o0.specials.(1)) (z_of_string o0.specials.(3)) (z_of_string o0.specials.(11))
              (z_of_string o.specials.(1)) (z_of_string o.specials.(3)) (z_of_string o.specials.(11))) then
      pf "holds_C11_esm_lot" (Printf.sprintf "module_lot0=%s_now=%s_collector_lot0=%s_now=%s_netfees0=%s_now=%s_lot_back=%s"
                                o0.specials.(1) o.specials.(1) o0.specials.(3) o.specials.(3) o0.specials.(11) o.specials.(11)
                                (zs (English.lot_back ia ia.English.lot_denom)))
  end;
  Array.iteri (fun i (b, l) ->
      let (b0, l0) = o0.bals.(i) in
      if is_esm then begin
        (* NO bidder has the lot, NO bidder has lost anything *)
        if not (English.holds_C11_esm ia (zi i) (z_of_string b0) (z_of_string l0) (z_of_string b) (z_of_string l)) then
          pf "holds_C11_esm" (Printf.sprintf "acct=%d_bid0=%s_lot0=%s_bid1=%s_lot1=%s_standing=%s" i b0 l0 b l
                                (match ia.English.bidder with Some w -> zs w ^ ":" ^ zs ia.English.buy | None -> "none"))
      end else
      if is_closed then begin
        if not (English.holds_C11_winner ia (zi i) (z_of_string b0) (z_of_string l0) (z_of_string b) (z_of_string l)) then
          pf "holds_C11_winner" (Printf.sprintf "acct=%d_bid0=%s_lot0=%s_bid1=%s_lot1=%s" i b0 l0 b l)
      end else begin
        if not (English.holds_C11_open ia (zi i) (z_of_string b0) (z_of_string l0) (z_of_string b) (z_of_string l)) then
          pf "holds_C11_open" (Printf.sprintf "acct=%d_bid0=%s_lot0=%s_bid1=%s_lot1=%s" i b0 l0 b l)
      end) o.bals;
  if is_esm then bump "obs:esm-closed" else if is_closed then bump "obs:closed" else bump "obs:open";
  c.ia <- Some ia; c.prev <- Some o; c.pending <- None

(* ------------------------------------------------------------------------------------------ *)
(* limit bids                                                                                  *)
(* lmod = the module's bank balance per debt denom MINUS the proceeds the running Dutch auctions keep
   in the module (lproc): the coins available to back limit deposits.  That is the model's MOD. *)
type lobs = { lrecs : (LimitBid.key * LimitBid.lrec) list; ltots : (LimitBid.mkt * BinNums.coq_Z) list;
              lbank : string array; lproc : string array; lmod : string array; lbals : string array array }

type lcase = {
  lid : string; lnb : int; cfg : LimitBid.cfg; base : BinNums.coq_Z array;
  mutable lst : LimitBid.lstate option; mutable lprev : lobs option; mutable lpending : string list list;
  mutable lstep_no : int;
  mutable keys : LimitBid.key list; mutable deps : int; mutable outs : int; mutable fills : int; lsig : Buffer.t;
  reported : (string, unit) Hashtbl.t }   (* persistent failures are reported once per case *)

let parse_lobs nb toks =
  let rec recs n l acc = if n = 0 then (L.rev acc, l) else match l with
      | d :: c :: p :: w :: amt :: den :: tl ->
        recs (n - 1) tl (({ LimitBid.k_debt = z_of_string d; k_coll = z_of_string c; k_prem = z_of_string p; k_who = z_of_string w },
                          { LimitBid.r_amt = z_of_string amt; r_denom = z_of_string den }) :: acc)
      | _ -> failwith "lobs recs" in
  let rec tots n l acc = if n = 0 then (L.rev acc, l) else match l with
      | d :: c :: v :: tl -> tots (n - 1) tl (((z_of_string d, z_of_string c), z_of_string v) :: acc)
      | _ -> failwith "lobs tots" in
  match toks with
  | n :: rest ->
    let (rs, rest) = recs (int_of_string n) rest [] in
    (match rest with
     | m :: rest ->
       let (ts, rest) = tots (int_of_string m) rest [] in
       let arr = Array.of_list rest in
       if Array.length arr <> 6 + 3 * nb then failwith "lobs balances";
       let lbank = Array.sub arr 0 3 and lproc = Array.sub arr 3 3 in
       { lrecs = rs; ltots = ts; lbank; lproc;
         lmod = Array.init 3 (fun d -> Z.to_string (Z.sub (Z.of_string lbank.(d)) (Z.of_string lproc.(d))));
         lbals = Array.init nb (fun i -> Array.sub arr (6 + 3 * i) 3) }
     | [] -> failwith "lobs")
  | [] -> failwith "lobs"

let lledger (o : lobs) : FLedger.ledger =
  let t = Hashtbl.create 32 in
  Array.iteri (fun d v -> Hashtbl.replace t (-1, d) (z_of_string v)) o.lmod;
  Array.iteri (fun i row -> Array.iteri (fun d v -> Hashtbl.replace t (i, d) (z_of_string v)) row) o.lbals;
  ledger_of t

let show_key (k : LimitBid.key) = Printf.sprintf "%s/%s/%s/%s" (zs k.LimitBid.k_debt) (zs k.LimitBid.k_coll) (zs k.LimitBid.k_prem) (zs k.LimitBid.k_who)

(* a message line -> the model operation *)
let lop_of toks : LimitBid.lop * int * string =
  match toks with
  | "op" :: "dep" :: who :: coll :: debt :: prem :: den :: amt :: res :: [] ->
    (LimitBid.Deposit (z_of_string who, z_of_string coll, z_of_string debt, z_of_string prem, z_of_string den, z_of_string amt), int_of_string who, res)
  | "op" :: "can" :: who :: coll :: debt :: prem :: res :: [] ->
    (LimitBid.Cancel (z_of_string who, z_of_string coll, z_of_string debt, z_of_string prem), int_of_string who, res)
  | "op" :: "wd" :: who :: coll :: debt :: prem :: den :: amt :: res :: [] ->
    (LimitBid.Withdraw (z_of_string who, z_of_string coll, z_of_string debt, z_of_string prem, z_of_string den, z_of_string amt), int_of_string who, res)
  | l -> failwith ("bad limit op: " ^ S.concat " " l)

(* ffills: the limit bids the closure bid with, in order, each with the amount actually bid for it *)
type fill = { fdebt : BinNums.coq_Z; fcoll : BinNums.coq_Z; fprem : BinNums.coq_Z; fD : BinNums.coq_Z; fok : bool;
              ffills : (BinNums.coq_Z * BinNums.coq_Z) list }

let fill_of toks =
  match toks with
  | "op" :: "fill" :: debt :: coll :: prem :: d :: ok :: n :: rest when L.length rest = 2 * int_of_string n ->
    let rec pairs = function w :: b :: tl -> (z_of_string w, z_of_string b) :: pairs tl | _ -> [] in
    { fdebt = z_of_string debt; fcoll = z_of_string coll; fprem = z_of_string prem; fD = z_of_string d; fok = bool_of_tok ok;
      ffills = pairs rest }
  | l -> failwith ("bad fill line: " ^ S.concat " " l)

let key_of_op = function
  | LimitBid.Deposit (w, c, d, p, _, _) | LimitBid.Withdraw (w, c, d, p, _, _) | LimitBid.Cancel (w, c, d, p) ->
    Some { LimitBid.k_debt = d; k_coll = c; k_prem = p; k_who = w }
  | LimitBid.AutoFill _ -> None

let denom_of_asset (c : lcase) (asset : BinNums.coq_Z) : int option =
  match LimitBid.aget (fun a b -> zeq a b) asset c.cfg.LimitBid.assets with Some d -> Some (int_of_z d) | None -> None

let lim_check (c : lcase) (o : lobs) =
  let case = c.lid and step = c.lstep_no in
  let mm field model impl = if model <> impl then mismatch ~case ~step ~field ~model ~impl in
  (match c.lst with None -> c.lst <- Some (LimitBid.lempty (lledger o)) | Some _ -> ());
  let impl_state = { LimitBid.recs = o.lrecs; totals = o.ltots; led = lledger o } in
  let pre_impl = (match c.lprev with Some p -> Some ({ LimitBid.recs = p.lrecs; totals = p.ltots; led = lledger p }, p) | None -> None) in
  let cur_op = ref None in          (* the message of this step, if it is one *)
  let is_block = ref false in
  let pending = L.rev c.lpending in
  let note_key k = if not (L.exists (fun k' -> LimitBid.keq k k') c.keys) then c.keys <- k :: c.keys in
  (* ---- the fills of a block: the module's net outflow per denom is observed for the whole block
          only; it is attributed to the closures in order (each at most what it charges, the rest
          to the last committed closure of that denom) ---- *)
  let fills = L.filter_map (function ("op" :: "fill" :: _) as t -> Some (fill_of t) | _ -> None) pending in
  let remaining = Array.init 3 (fun d ->
      match c.lst with
      | Some s -> Z.sub (zz_of_z (s.LimitBid.led LimitBid.coq_MOD (zi d))) (Z.of_string o.lmod.(d))
      | None -> Z.zero) in
  let nfills = L.length fills in
  L.iteri (fun i f ->
      is_block := true;
      Buffer.add_string c.lsig (Printf.sprintf "f%s:%s:%s:%s:%b:%s;" (zs f.fdebt) (zs f.fcoll) (zs f.fprem) (zs f.fD) f.fok
                                  (S.concat "," (L.map (fun (w, b) -> zs w ^ "=" ^ zs b) f.ffills)));
      bump "op:fill"; bump (if f.fok then "fill:committed" else "fill:rolled-back");
      L.iter (fun (w, _) -> note_key { LimitBid.k_debt = f.fdebt; k_coll = f.fcoll; k_prem = f.fprem; k_who = w }) f.ffills;
      let s = (match c.lst with Some s -> s | None -> assert false) in
      let dn = denom_of_asset c f.fdebt in
      let spent =
        if not f.fok then Z.zero else
          match dn with
          | Some d when d >= 0 && d < 3 ->
            let later = L.exists (fun (j, g) -> j > i && g.fok && denom_of_asset c g.fdebt = dn) (L.mapi (fun j g -> (j, g)) fills) in
            let charge = (match LimitBid.fill_recs f.fdebt f.fcoll f.fprem f.ffills s with
                | Some (_, ch) -> zz_of_z ch
                | None -> L.fold_left (fun acc (_, b) -> Z.add acc (zz_of_z b)) Z.zero f.ffills) in
            let x = if later then Z.max Z.zero (Z.min charge remaining.(d)) else remaining.(d) in
            remaining.(d) <- Z.sub remaining.(d) x;
            (* the settlement against what the records were charged: less = the bid was cut down to the
               left-over collateral or a later bid of the closure overwrote the auction update (C10) *)
            bump (if Z.sign x < 0 then "fill:settlement-net-inflow" else if Z.lt x charge then "fill:settlement<charged"
                  else if Z.equal x charge then "fill:settlement=charged" else "fill:settlement>charged");
            x
          | _ -> Z.zero in
      (* branch statistics, on the model's records *)
      if f.fok then begin
        c.fills <- c.fills + 1;
        (* the outstanding debt as the closure's earlier bids left it *)
        let debt = ref (zz_of_z f.fD) in
        L.iter (fun (w, b) ->
            (match LimitBid.aget LimitBid.keq { LimitBid.k_debt = f.fdebt; k_coll = f.fcoll; k_prem = f.fprem; k_who = w } s.LimitBid.recs with
             | Some r ->
               let cmp = Z.compare (zz_of_z r.LimitBid.r_amt) !debt in
               bump (if cmp = 0 then "fill:record=debt" else if cmp > 0 then "fill:record>debt" else "fill:record<debt");
               let cb = Z.compare (zz_of_z b) (Z.min (zz_of_z r.LimitBid.r_amt) !debt) in
               if cb < 0 then bump "fill:bid-cut-to-collateral"
             | None -> bump "fill:record-gone");
            debt := Z.sub !debt (zz_of_z b)) f.ffills;
        if L.length f.ffills > 1 then bump "fill:several-records"
      end;
      let op = LimitBid.AutoFill (f.fdebt, f.fcoll, f.fprem, f.ffills, z_of_zz spent, f.fok) in
      (match LimitBid.lstep c.cfg s op with
       | Base.Ok s' -> c.lst <- Some s'
       | Base.Err code -> if f.fok then mm "fill-result" ("err" ^ zs code) "ok"
       | Base.Panic -> mm "fill-result" "panic" (if f.fok then "ok" else "err"));
      ignore nfills) fills;
  (* ---- the message / the block marker ---- *)
  L.iter (fun toks ->
      match toks with
      | "op" :: "fill" :: _ -> ()
      | "op" :: "block" :: _now :: res :: [] ->
        is_block := true; bump "op:block"; Buffer.add_string c.lsig "B;";
        mm "result" "ok" res            (* the hook recovers panics and swallows errors *)
      | _ ->
        let (op, who, res) = lop_of toks in
        cur_op := Some (op, who, res);
        let kind = (match op with LimitBid.Deposit _ -> "dep" | LimitBid.Cancel _ -> "can" | LimitBid.Withdraw _ -> "wd" | LimitBid.AutoFill _ -> "fill") in
        bump ("op:" ^ kind); bump (kind ^ ":" ^ res);
        Buffer.add_string c.lsig (S.concat " " toks ^ ";");
        (match key_of_op op with Some k -> note_key k | None -> ());
        let s = (match c.lst with Some s -> s | None -> assert false) in
        (match LimitBid.lstep c.cfg s op with
         | Base.Ok s' -> mm "result" "ok" res; c.lst <- Some s'
         | Base.Err code -> mm "result" "err" res; bump (kind ^ ":err" ^ zs code)
         | Base.Panic -> mm "result" "panic" res);
        if res = "ok" then (match op with LimitBid.Deposit _ -> c.deps <- c.deps + 1 | LimitBid.AutoFill _ -> () | _ -> c.outs <- c.outs + 1)) pending;
  (* ---- diff ---- *)
  let s = (match c.lst with Some s -> s | None -> assert false) in
  mm "nrecs" (string_of_int (L.length s.LimitBid.recs)) (string_of_int (L.length o.lrecs));
  L.iter (fun k ->
      let show = function Some r -> zs r.LimitBid.r_amt ^ ":" ^ zs r.LimitBid.r_denom | None -> "none" in
      mm ("rec[" ^ show_key k ^ "]") (show (LimitBid.aget LimitBid.keq k s.LimitBid.recs)) (show (LimitBid.aget LimitBid.keq k o.lrecs))) c.keys;
  mm "ntotals" (string_of_int (L.length s.LimitBid.totals)) (string_of_int (L.length o.ltots));
  L.iter (fun (m, v) -> mm (Printf.sprintf "total[%s,%s]" (zs (fst m)) (zs (snd m))) (zs (LimitBid.tot m s)) (zs v)) o.ltots;
  Array.iteri (fun d v -> mm (Printf.sprintf "bal[mod,%d]" d) (zs (s.LimitBid.led LimitBid.coq_MOD (zi d))) v) o.lmod;
  Array.iteri (fun i row -> Array.iteri (fun d v -> mm (Printf.sprintf "bal[%d,%d]" i d) (zs (s.LimitBid.led (zi i) (zi d))) v) row) o.lbals;
  (* ---- the property on the implementation's observation ---- *)
  let kf = "none" in
  let markets = L.sort_uniq compare (L.map (fun (m, _) -> (zs (fst m), zs (snd m))) o.ltots @ L.map (fun (k, _) -> (zs k.LimitBid.k_debt, zs k.LimitBid.k_coll)) o.lrecs) in
  L.iter (fun (d, cl) ->
      let m = (z_of_string d, z_of_string cl) in
      if not (LimitBid.holds_C11_limit_total impl_state m) && not (Hashtbl.mem c.reported ("t" ^ d ^ "/" ^ cl)) then begin
        Hashtbl.replace c.reported ("t" ^ d ^ "/" ^ cl) ();
        predfail ~case ~step ~pred:"holds_C11_limit_total" ~kf
          ~detail:(Printf.sprintf "market=%s/%s_total=%s_sum=%s" d cl (zs (LimitBid.tot m impl_state)) (zs (LimitBid.sum_market m impl_state)))
      end) markets;
  for d = 0 to 2 do
    if not (LimitBid.holds_C11_limit_custody impl_state (zi d) c.base.(d)) && not (Hashtbl.mem c.reported ("c" ^ string_of_int d)) then begin
      Hashtbl.replace c.reported ("c" ^ string_of_int d) ();
      predfail ~case ~step ~pred:"holds_C11_limit_custody" ~kf
        ~detail:(Printf.sprintf "denom=%d_module=%s_auction_proceeds=%s_base=%s_deposits=%s" d o.lbank.(d) o.lproc.(d) (zs c.base.(d)) (zs (LimitBid.sum_denom (zi d) impl_state)))
    end
  done;
  (match !cur_op, pre_impl with
   | Some (op, who, "ok"), Some (ps, po) when who >= 0 && who < c.lnb ->
     for d = 0 to 2 do
       let delta = Z.sub (Z.of_string o.lbals.(who).(d)) (Z.of_string po.lbals.(who).(d)) in
       if not (LimitBid.holds_C11_limit_own ps op (zi d) (z_of_zz delta)) then
         predfail ~case ~step ~pred:"holds_C11_limit_own" ~kf
           ~detail:(Printf.sprintf "who=%d_denom=%d_received=%s_own_deposit=%s" who d (Z.to_string delta)
                      (match key_of_op op with Some k -> zs (LimitBid.dep k ps) | None -> "-"))
     done
   | _ -> ());
  (* a block pays no debt coins to anybody *)
  (match !is_block, pre_impl with
   | true, Some (ps, po) ->
     let op = LimitBid.AutoFill (BinNums.Z0, BinNums.Z0, BinNums.Z0, [], BinNums.Z0, true) in
     for who = 0 to c.lnb - 1 do
       for d = 0 to 2 do
         let delta = Z.sub (Z.of_string o.lbals.(who).(d)) (Z.of_string po.lbals.(who).(d)) in
         if not (LimitBid.holds_C11_limit_own ps op (zi d) (z_of_zz delta)) then
           predfail ~case ~step ~pred:"holds_C11_limit_own" ~kf
             ~detail:(Printf.sprintf "block_who=%d_denom=%d_received=%s" who d (Z.to_string delta))
       done
     done
   | _ -> ());
  c.lprev <- Some o; c.lpending <- []

(* ------------------------------------------------------------------------------------------ *)
let run (path : string) =
  let lines = read_lines path in
  let cases = ref 0 and steps = ref 0 and nontrivial = ref 0 in
  let cur_e : ecase option ref = ref None and cur_l : lcase option ref = ref None in
  let end_case () =
    (match !cur_e with
     | Some c -> incr cases; if c.refunds >= 1 || c.esm_refunds >= 1 then incr nontrivial;
       Hashtbl.replace distinct (Digest.string (c.vname ^ Buffer.contents c.sigb)) ()
     | None -> ());
    (match !cur_l with
     | Some c -> incr cases; if c.deps >= 1 && c.outs >= 1 then incr nontrivial;
       Hashtbl.replace distinct (Digest.string ("lim" ^ Buffer.contents c.lsig)) ()
     | None -> ());
    cur_e := None; cur_l := None in
  L.iter (fun line ->
      match tokens line with
      | "case" :: id :: "eng" :: v :: nb :: bd :: ld :: sell0 :: buy0 :: now0 :: fac :: dur :: bdur :: [] ->
        end_case ();
        bump ("case:" ^ v);
        cur_e := Some { id; v = variant_of v; vname = v; nb = int_of_string nb; bd = int_of_string bd; ld = int_of_string ld;
                        st = None; ia = None; prev = None; init = None; accepted = []; pending = None; estep = 0; refunds = 0; esm_closed = false; esm_refunds = 0;
                        sigb = Buffer.create 256; fac = z_of_string fac; edur = z_of_string dur; ebdur = z_of_string bdur;
                        sell0 = z_of_string sell0; buy0 = z_of_string buy0; now0 = z_of_string now0 }
      | "case" :: id :: "lim" :: nb :: cf :: wf :: na :: rest ->
        end_case ();
        bump "case:lim";
        let na = int_of_string na in
        let (al, rest) = take (2 * na) rest in
        let rec pairs = function a :: d :: tl -> (z_of_string a, z_of_string d) :: pairs tl | _ -> [] in
        let base = Array.of_list (L.map z_of_string rest) in
        cur_l := Some { lid = id; lnb = int_of_string nb;
                        cfg = { LimitBid.assets = pairs al; closing_fee = z_of_string cf; withdrawal_fee = z_of_string wf };
                        base; lst = None; lprev = None; lpending = []; lstep_no = 0;
                        keys = []; deps = 0; outs = 0; fills = 0; lsig = Buffer.create 256; reported = Hashtbl.create 8 }
      | "op" :: _ as toks ->
        incr steps;
        (match !cur_e, !cur_l with
         | Some c, _ -> c.estep <- c.estep + 1; c.pending <- Some toks
         | _, Some c -> c.lstep_no <- c.lstep_no + 1; c.lpending <- toks :: c.lpending
         | _ -> ())
      | "obs" :: toks -> (match !cur_e with Some c -> eng_check c (parse_eobs c.nb toks) | None -> ())
      | "lobs" :: toks -> (match !cur_l with Some c -> lim_check c (parse_lobs c.lnb toks) | None -> ())
      | _ -> ()) lines;
  end_case ();
  finish ~cases:!cases ~steps:!steps ~nontrivial:!nontrivial

let () = Conv.register "C11" run
