(* C12 runner.  Reads the matrix the harness ran on the REAL code and
   - compares each observation with what the regenerated tables + Guards semantics predict
     (correspondence: a handler the table does not know, an owner-guarded handler that lets a
     non-owner through, an owner run the model calls unauthorised, a wasm ladder decision that
     differs, a position message of the table that the harness never exercised), and
   - evaluates the extracted property predicates on the implementation's observations. *)
open Conv
open GuardsCheck
open Guards_conv

let run_gen ~(xmode : bool) (path : string) =
  let lines = read_lines path in
  let cases = ref 0 and steps = ref 0 and nontrivial = ref 0 in
  let exercised : (string, unit) Hashtbl.t = Hashtbl.create 64 in
  let owner_ok_seen : (string, unit) Hashtbl.t = Hashtbl.create 64 in
  let other_owner_seen : (string, unit) Hashtbl.t = Hashtbl.create 64 in
  let collide_seen : (string, unit) Hashtbl.t = Hashtbl.create 64 in
  let focused = ref false in
  let changed_ok_seen : (string, unit) Hashtbl.t = Hashtbl.create 64 in
  let other_signer_seen : (string, unit) Hashtbl.t = Hashtbl.create 64 in
  let notes = ref 0 in
  L.iter (fun line ->
      match tokens line with
      | "case" :: id :: "pos" :: handler :: names :: si :: nok :: owner_cls :: cls :: kind :: changed :: oi :: has_pos :: coll :: vchanged :: [] ->
        incr cases; incr steps;
        let h = coq_of_string handler in
        let is_owner = (si = "0") and ok = (cls = "ok") and changed = bool_of_tok changed in
        let has_pos = bool_of_tok has_pos and coll = bool_of_tok coll and vchanged = bool_of_tok vchanged in
        bump ("pos:" ^ (if is_owner then "owner" else if coll then "nonowner-same-id-other-kind" else if has_pos then "nonowner-other-owner" else "nonowner") ^ ":" ^ cls ^ ":" ^ kind);
        Hashtbl.replace distinct (Digest.string (handler ^ oi ^ si ^ nok ^ cls)) ();
        Hashtbl.replace exercised handler ();
        if is_owner && ok then Hashtbl.replace owner_ok_seen handler ();
        if (not is_owner) && has_pos then Hashtbl.replace other_owner_seen handler ();
        if (not is_owner) && coll then Hashtbl.replace collide_seen handler ();
        if not (handler_known h) then
          mismatch ~case:id ~step:1 ~field:("handler-row:" ^ handler) ~model:"absent" ~impl:"present"
        else begin
          (* the harness says the message names a position <-> the model's position / exempt lists *)
          let model_pos = handler_position_msg h || handler_exempt h in
          if bool_of_tok names && not model_pos then
              bump ("pos:harness-flag-only:" ^ handler);
          (* correspondence with the guard table: a guarded handler rejects the non-owner when the
             same message by the owner passes; the predicted class comes from [exec] *)
          if (not is_owner) && owner_cls = "ok" && handler_position_msg h && not (handler_signer_keyed h) then begin
            let pred = kind_of_code (predict nonowner_ctx h) in
            if pred = "ok" then
              mismatch ~case:id ~step:1 ~field:("predict-nonowner:" ^ handler) ~model:"ok" ~impl:cls
            else if ok then
              mismatch ~case:id ~step:1 ~field:("nonowner-class:" ^ handler) ~model:pred ~impl:"ok"
            else if pred = "unauth" && kind <> "unauth" then
              (* another check fired first for this signer (funds, not-found): only a histogram entry *)
              bump ("pos:nonowner-other-error-first:" ^ handler)
          end;
          if (not is_owner) && handler_position_msg h then incr nontrivial
        end;
        if cls = "panic" then bump ("pos:panic:" ^ handler);
        if not (holds_C12_owner h is_owner has_pos ok changed vchanged) then
          predfail ~case:id ~step:1 ~pred:"holds_C12_owner" ~kf:"none"
            ~detail:(Printf.sprintf "%s_owner=%s_signer=%s_cls=%s_changed=%s_victim_changed=%s_signer_owns_same_id_of_other_kind=%s" handler oi si cls
                       (tok_of_bool changed) (tok_of_bool vchanged) (tok_of_bool coll))
      | "case" :: id :: "posx" :: handler :: variant :: state :: si :: nok :: owner_cls :: cls :: kind :: changed :: oi :: has_pos :: vchanged :: bchanged :: [] ->
        (* extended matrix: unhealthy positions, running auctions of both generations, shutdown state *)
        incr cases; incr steps;
        let h = coq_of_string handler in
        let is_owner = (si = "0") and ok = (cls = "ok") and changed = bool_of_tok changed in
        let has_pos = bool_of_tok has_pos and vchanged = bool_of_tok vchanged and bchanged = bool_of_tok bchanged in
        ignore state;
        bump ("posx:" ^ handler ^ "/" ^ variant ^ ":" ^ (if is_owner then "named-owner" else if has_pos then "other-owner" else "stranger") ^ ":" ^ cls ^ ":" ^ kind
              ^ (if vchanged then ":named-owner-changed" else "") ^ (if bchanged then ":bystander-changed" else ""));
        Hashtbl.replace distinct (Digest.string (handler ^ variant ^ oi ^ si ^ nok ^ cls)) ();
        Hashtbl.replace exercised handler ();
        if is_owner && ok then Hashtbl.replace owner_ok_seen handler ();
        if is_owner && ok && changed then Hashtbl.replace changed_ok_seen handler ();
        if not is_owner then Hashtbl.replace other_signer_seen handler ();
        if (not is_owner) && has_pos then Hashtbl.replace other_owner_seen handler ();
        if not (handler_known h) then
          mismatch ~case:id ~step:1 ~field:("handler-row:" ^ handler) ~model:"absent" ~impl:"present"
        else begin
          if (not is_owner) && owner_cls = "ok" then begin
            let pred = kind_of_code (predict nonowner_ctx h) in
            if handler_position_msg h && not (handler_signer_keyed h) then begin
              if pred = "ok" then mismatch ~case:id ~step:1 ~field:("predict-nonowner:" ^ handler) ~model:"ok" ~impl:cls
              else if ok then mismatch ~case:id ~step:1 ~field:("nonowner-class:" ^ handler) ~model:pred ~impl:"ok"
            end else if not (handler_position_msg h) then begin
              (* no owner concept in the table: a funded signer gets what the named owner gets *)
              if pred = "unauth" then mismatch ~case:id ~step:1 ~field:("predict-nonowner:" ^ handler) ~model:"unauth" ~impl:cls
              else if not ok then bump ("posx:permissionless-but-other-signer-fails:" ^ handler ^ ":" ^ kind)
            end
          end;
          if not is_owner then incr nontrivial
        end;
        if cls = "panic" then bump ("posx:panic:" ^ handler);
        if not (holds_C12_x h is_owner has_pos ok changed vchanged bchanged) then
          predfail ~case:id ~step:1 ~pred:"holds_C12_x" ~kf:"none"
            ~detail:(Printf.sprintf "%s/%s_owner=%s_signer=%s_cls=%s_changed=%s_named-owner-changed=%s_bystander-changed=%s" handler variant oi si cls
                       (tok_of_bool changed) (tok_of_bool vchanged) (tok_of_bool bchanged))
      | "#" :: "fixture-note" :: _ -> incr notes
      | "case" :: id :: "wasm" :: variant :: chain :: sender :: accepted :: cls :: changed :: [] ->
        incr cases; incr steps;
        let accepted = bool_of_tok accepted and changed = bool_of_tok changed in
        bump ("wasm:" ^ chain ^ ":" ^ (if accepted then "accepted" else "rejected") ^ ":" ^ cls);
        Hashtbl.replace distinct (Digest.string (variant ^ chain ^ sender)) ();
        let v = coq_of_string variant and c = coq_of_string chain and s = coq_of_string sender in
        (match wasm_model_accepts v c s with
         | None -> mismatch ~case:id ~step:1 ~field:("wasm-row:" ^ variant) ~model:"absent" ~impl:"present"
         | Some m ->
           if m <> accepted then
             mismatch ~case:id ~step:1 ~field:("wasm-ladder:" ^ variant ^ ":" ^ chain) ~model:(tok_of_bool m) ~impl:(tok_of_bool accepted);
           if not m then incr nontrivial);
        if not (holds_C12_wasm v c s accepted changed) then
          predfail ~case:id ~step:1 ~pred:"holds_C12_wasm" ~kf:"none"
            ~detail:(Printf.sprintf "%s_%s_%s_accepted=%s_changed=%s" variant chain sender (tok_of_bool accepted) (tok_of_bool changed))
      | "case" :: id :: "wasmx" :: variant :: chain :: sender :: accepted :: cls :: changed :: dirty :: real :: [] ->
        (* custom messages with payloads that have an effect on the extended state: the sender guard as above, and
           a message the ladder rejects leaves no trace even on the (uncommitted) branch it ran on *)
        incr cases; incr steps;
        let accepted = bool_of_tok accepted and changed = bool_of_tok changed and dirty = bool_of_tok dirty in
        bump ("wasmx:" ^ chain ^ ":" ^ (if accepted then "accepted" else "rejected") ^ ":" ^ cls ^ (if changed then ":effect" else ":no-effect"));
        Hashtbl.replace distinct (Digest.string ("x" ^ variant ^ chain ^ sender)) ();
        let v = coq_of_string variant and c = coq_of_string chain and sd = coq_of_string sender in
        (match wasm_model_accepts v c sd with
         | None -> mismatch ~case:id ~step:1 ~field:("wasm-row:" ^ variant) ~model:"absent" ~impl:"present"
         | Some m ->
           if m <> accepted then
             mismatch ~case:id ~step:1 ~field:("wasm-ladder:" ^ variant ^ ":" ^ chain) ~model:(tok_of_bool m) ~impl:(tok_of_bool accepted);
           if (not m) && dirty then
             mismatch ~case:id ~step:1 ~field:("wasm-ladder-before-writes:" ^ variant ^ ":" ^ chain) ~model:"branch-untouched" ~impl:"written";
           if not m then incr nontrivial);
        if accepted && cls = "ok" && changed && real = "1" then Hashtbl.replace changed_ok_seen ("wasm:" ^ variant) ();
        Hashtbl.replace exercised ("wasm:" ^ variant) ();
        if not (holds_C12_wasm v c sd accepted changed) then
          predfail ~case:id ~step:1 ~pred:"holds_C12_wasm" ~kf:"none"
            ~detail:(Printf.sprintf "%s_%s_%s_accepted=%s_changed=%s_with-effect-payload" variant chain sender (tok_of_bool accepted) (tok_of_bool changed))
      | "case" :: id :: "kill" :: is_admin :: enable :: cls :: kind :: changed :: [] ->
        incr cases; incr steps;
        let is_admin = bool_of_tok is_admin and ok = (cls = "ok") and changed = bool_of_tok changed in
        bump ("kill:" ^ (if is_admin then "admin" else "other") ^ ":" ^ cls ^ ":" ^ kind);
        Hashtbl.replace distinct (Digest.string ("kill" ^ id)) ();
        if not is_admin then incr nontrivial;
        (* table: GAdmin first -> a non-admin gets unauthorised *)
        if kill_switch_ok && (not is_admin) && kind <> "unauth" then
          mismatch ~case:id ~step:1 ~field:"kill-class" ~model:"unauth" ~impl:(cls ^ ":" ^ kind);
        if kill_switch_ok && is_admin && not ok then
          mismatch ~case:id ~step:1 ~field:"kill-admin" ~model:"ok" ~impl:(cls ^ ":" ^ kind);
        if not (holds_C12_kill is_admin ok changed) then
          predfail ~case:id ~step:1 ~pred:"holds_C12_kill" ~kf:"none"
            ~detail:(Printf.sprintf "admin=%s_enable=%s_cls=%s" (tok_of_bool is_admin) enable cls)
      | "#" :: "focus" :: _ -> focused := true
      | [] -> ()
      | _ -> ()
    ) lines;
  (* coverage (plain matrix): every position message of the regenerated table was exercised, and the owner's
     run succeeded at least once (otherwise "non-owner rejected" would be vacuous); every msgServer method
     of the five servers was sent at all *)
  if (not xmode) && Sys.getenv_opt "VERIF_CASE" = None && !cases > 100 && not !focused then begin
    L.iter (fun hn ->
        let n = string_of_coq hn in
        if not (Hashtbl.mem exercised n) then
          mismatch ~case:"-" ~step:0 ~field:("coverage:" ^ n) ~model:"position-message-in-table" ~impl:"not-exercised"
        else if not (Hashtbl.mem owner_ok_seen n) then
          mismatch ~case:"-" ~step:0 ~field:("coverage-owner-ok:" ^ n) ~model:"owner-succeeds" ~impl:"never"
        else if not (Hashtbl.mem other_owner_seen n) then
          mismatch ~case:"-" ~step:0 ~field:("coverage-other-owner:" ^ n) ~model:"signed-by-another-position-owner" ~impl:"never"
        else if (not (handler_signer_keyed hn)) && not (Hashtbl.mem collide_seen n) then
          (* misaligned ids: a signer owning a position of another kind with the same numeric id *)
          mismatch ~case:"-" ~step:0 ~field:("coverage-misaligned-ids:" ^ n) ~model:"signer-owns-same-id-of-another-kind" ~impl:"never")
      position_handler_names;
    L.iter (fun hn ->
        let n = string_of_coq hn in
        if not (Hashtbl.mem exercised n) then
          mismatch ~case:"-" ~step:0 ~field:("coverage:" ^ n) ~model:"msg-server-method-of-the-plain-matrix" ~impl:"not-exercised")
      base_matrix_handlers
  end;
  (* coverage (extended matrix): every msgServer method of the liquidation / auction / esm / rewards / collector /
     tokenmint modules (computed from the regenerated registry) was sent, succeeded WITH an effect for the named
     owner, and was attempted by another position owner and by a stranger *)
  if xmode && Sys.getenv_opt "VERIF_CASE" = None && !cases > 100 && not !focused then begin
    if !notes > 0 then
      mismatch ~case:"-" ~step:0 ~field:"fixture" ~model:"extended-fixture-complete" ~impl:(Printf.sprintf "%d-notes-in-trace" !notes);
    L.iter (fun hn ->
        let n = string_of_coq hn in
        if not (Hashtbl.mem exercised n) then
          mismatch ~case:"-" ~step:0 ~field:("coverage:" ^ n) ~model:"msg-server-method-of-the-extended-matrix" ~impl:"not-exercised"
        else if not (Hashtbl.mem changed_ok_seen n) then
          mismatch ~case:"-" ~step:0 ~field:("coverage-ok-with-effect:" ^ n) ~model:"named-owner-succeeds-and-state-changes" ~impl:"never"
        else if not (Hashtbl.mem other_owner_seen n && Hashtbl.mem other_signer_seen n) then
          mismatch ~case:"-" ~step:0 ~field:("coverage-other-signer:" ^ n) ~model:"signed-by-another-owner-and-a-stranger" ~impl:"never")
      x_matrix_handlers;
    (* every custom message variant of the regenerated table was sent with a payload whose accepted run changes state *)
    L.iter (fun vn ->
        let n = "wasm:" ^ string_of_coq vn in
        if not (Hashtbl.mem exercised n) then
          mismatch ~case:"-" ~step:0 ~field:("coverage:" ^ n) ~model:"custom-message-variant-with-effect-payload" ~impl:"not-sent"
        else if not (Hashtbl.mem changed_ok_seen n) then
          mismatch ~case:"-" ~step:0 ~field:("coverage-effect:" ^ n) ~model:"accepted-run-changes-state" ~impl:"never")
      wasm_variant_names
  end;
  finish ~cases:!cases ~steps:!steps ~nontrivial:!nontrivial

(* runner C12-focus <ignored>: the position handlers whose regenerated row fails the C12 owner check *)
let focus (_ : string) =
  L.iter (fun n -> print_endline ("FOCUS " ^ string_of_coq n)) c12_broken_rows

let run = run_gen ~xmode:false
let run_x = run_gen ~xmode:true
let () = Conv.register "C12" run
let () = Conv.register "C12X" run_x
let () = Conv.register "C12-focus" focus
