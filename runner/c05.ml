(* C05 runner: replays every traced call of the real amm package on the extracted model
   (AMM.run_match / run_single_price / run_distribute / run_sort), diffs every order's
   (open, paid, received, matched flag), the matched flag, match price and quoteCoinDiff, and
   evaluates the extracted holds_C05_* predicates on the IMPLEMENTATION's outputs.  The number of
   fills (dust bound, limit-price slack) is the model's ghost fill list.  A predicate failure is
   classified kf_C05_1 when the extracted class predicate holds for the input. *)
open Conv
open AMM

type rrow = { ropen : string; rpaid : string; rrecv : string; rflag : string }

let mk_order i toks =
  match toks with
  | [ d; price; amt; offer; batch; key ] ->
    { o_id = nat_of_int i; o_dir = (if d = "B" then Buy else Sell); o_price = z_of_string price;
      o_amt = z_of_string amt; o_offer = z_of_string offer; o_open = z_of_string amt;
      o_paid = BinNums.Z0; o_recv = BinNums.Z0; o_batch = z_of_string batch; o_key = z_of_string key }
  | _ -> failwith "bad o line"

let rec int_of_nat = function Datatypes.O -> 0 | Datatypes.S n -> 1 + int_of_nat n

let size_class n = if n = 0 then "0" else if n <= 3 then "1-3" else if n <= 8 then "4-8" else if n <= 12 then "9-12" else ">12"

let run (path : string) =
  let lines = read_lines path in
  let cases = ref 0 and steps = ref 0 and nontrivial = ref 0 in
  let case = ref "" and kind = ref "" in
  let orders : order list ref = ref [] in
  let op : string list ref = ref [] in
  let res : string list ref = ref [] in
  let rows : rrow list ref = ref [] in
  let sig_ = Buffer.create 512 in
  let finish_case () =
    if !case <> "" && !op <> [] then begin
      incr cases; incr steps;
      Hashtbl.replace distinct (Digest.string (Buffer.contents sig_)) ();
      let os0 = L.rev !orders in
      let rows = L.rev !rows in
      let c = !case in
      bump ("op:" ^ !kind); bump ("orders:" ^ size_class (L.length os0));
      let res_class, imatched, iprice, iqcd = (match !res with
          | [ a; b; c; d ] -> a, bool_of_tok b, c, d | _ -> failwith "bad res line") in
      bump ("res:" ^ res_class);
      (* the model's run and the input handed to it; for dist the input is the sorted slice *)
      let input, model, kf, dom_price, skip =
        (match !op with
         | [ "match"; lp ] ->
           let lp = z_of_string lp in
           os0, run_match os0 lp, (fun () -> kf_C05_1 os0 lp), lp, false
         | [ "single"; p ] ->
           let p = z_of_string p in
           os0, run_single_price os0 p, (fun () -> kf_C05_1_single os0 p), p, false
         | [ "find"; _; found; p ] ->
           if bool_of_tok found then begin
             let p = z_of_string p in
             os0, run_single_price os0 p, (fun () -> kf_C05_1_single os0 p), p, false
           end else begin
             bump "find:none";
             os0, None, (fun () -> false), z_of_int 1, true
           end
         | "dist" :: amt :: p :: perm ->
           let amt = z_of_string amt and p = z_of_string p in
           let mperm = L.map int_of_nat (run_sort os0) in
           let iperm = L.map int_of_string perm in
           if mperm <> iperm then
             mismatch ~case:c ~step:1 ~field:"sort" ~model:(S.concat "," (L.map string_of_int mperm))
               ~impl:(S.concat "," (L.map string_of_int iperm));
           let arr = Array.of_list os0 in
           let sorted = L.mapi (fun i j -> { (arr.(j)) with o_id = nat_of_int i }) iperm in
           sorted, run_distribute sorted amt p, (fun () -> kf_C05_1_dist sorted amt p), p, false
         | _ -> failwith "bad op line") in
      if skip then ()
      else if not (dom_ok input dom_price) then bump "out-of-domain"
      else begin
        (* the implementation's observation as order records *)
        if L.length rows <> L.length input then failwith ("case " ^ c ^ ": row count");
        let os1 = L.map2 (fun o r -> { o with o_open = z_of_string r.ropen; o_paid = z_of_string r.rpaid;
                                              o_recv = z_of_string r.rrecv }) input rows in
        (* ---- correspondence ---- *)
        (match model with
         | None ->
           if res_class <> "panic" then mismatch ~case:c ~step:1 ~field:"result" ~model:"panic" ~impl:res_class
         | Some m ->
           if res_class <> "ok" then mismatch ~case:c ~step:1 ~field:"result" ~model:"ok" ~impl:res_class
           else begin
             if m.r_matched <> imatched then
               mismatch ~case:c ~step:1 ~field:"matched" ~model:(tok_of_bool m.r_matched) ~impl:(tok_of_bool imatched);
             if m.r_matched && imatched then begin
               if string_of_z m.r_price <> iprice then
                 mismatch ~case:c ~step:1 ~field:"matchPrice" ~model:(string_of_z m.r_price) ~impl:iprice;
               let q = string_of_z (fills_qdiff m.r_fills) in
               if q <> iqcd then mismatch ~case:c ~step:1 ~field:"quoteCoinDiff" ~model:q ~impl:iqcd
             end;
             L.iteri (fun i (mo, r) ->
                 let chk f a b = if a <> b then mismatch ~case:c ~step:1 ~field:(Printf.sprintf "order[%d].%s" i f) ~model:a ~impl:b in
                 chk "open" (string_of_z mo.o_open) r.ropen;
                 chk "paid" (string_of_z mo.o_paid) r.rpaid;
                 chk "recv" (string_of_z mo.o_recv) r.rrecv;
                 chk "isMatched" (tok_of_bool (BinInt.Z.ltb mo.o_open mo.o_amt)) r.rflag)
               (L.combine m.r_orders rows)
           end);
        (* ---- the property, judged on the implementation's outputs ---- *)
        let fs = (match model with Some m -> m.r_fills | None -> []) in
        let nf = z_of_int (L.length fs) in
        if fs <> [] then incr nontrivial;
        bump ("fills:" ^ size_class (L.length fs));
        if res_class = "panic" then
          predfail ~case:c ~step:1 ~pred:"no_panic" ~kf:"none" ~detail:"matching_panicked"
        else begin
          let in_kf = lazy (kf ()) in
          let cls () = if Lazy.force in_kf then "kf_C05_1" else "none" in
          if (match model with Some m -> m.r_under | None -> false) then bump "kf_C05_1:inputs";
          let two_sided = (!kind <> "dist") in   (* dist fills one side only *)
          let base_ok = (not two_sided) || holds_C05_base input os1 in
          if not base_ok then
            predfail ~case:c ~step:1 ~pred:"holds_C05_base" ~kf:(cls ())
              ~detail:(Printf.sprintf "buyers_received=%s_sellers_paid=%s" (string_of_z (base_bought input os1)) (string_of_z (base_sold input os1)));
          (* the dust clause presupposes base conservation (it compares two sides of the same trades) *)
          if two_sided && not (holds_C05_dust input os1 nf) then
            predfail ~case:c ~step:1 ~pred:"holds_C05_dust" ~kf:(if base_ok then "none" else cls ())
              ~detail:(Printf.sprintf "quote_paid=%s_quote_received=%s_fills=%d" (string_of_z (quote_paid input os1)) (string_of_z (quote_recv input os1)) (L.length fs));
          if not (holds_C05_bounds os1) then
            predfail ~case:c ~step:1 ~pred:"holds_C05_bounds" ~kf:"none" ~detail:"order_overfilled_or_overpaid";
          if not (holds_C05_limit input os1 fs) then
            predfail ~case:c ~step:1 ~pred:"holds_C05_limit" ~kf:"none" ~detail:"order_traded_beyond_limit_price";
          if not (holds_C05_positive os1) then
            predfail ~case:c ~step:1 ~pred:"holds_C05_positive" ~kf:"none" ~detail:"matched_order_received_nothing";
          if imatched && two_sided && not (holds_C05_qdiff input os1 (z_of_string iqcd)) then
            predfail ~case:c ~step:1 ~pred:"holds_C05_qdiff" ~kf:"none" ~detail:("returned_quoteCoinDiff=" ^ iqcd);
          L.iter (fun r -> bump (if r.rflag = "1" then "order:matched" else "order:unmatched")) rows
        end
      end
    end in
  L.iter (fun line ->
      match tokens line with
      | "case" :: id :: k :: _ ->
        finish_case ();
        case := id; kind := k; orders := []; op := []; res := []; rows := []; Buffer.clear sig_;
        Buffer.add_string sig_ k
      | "o" :: rest ->
        Buffer.add_string sig_ (S.concat " " rest); Buffer.add_char sig_ ';';
        orders := mk_order (L.length !orders) rest :: !orders
      | "op" :: rest -> Buffer.add_string sig_ (S.concat " " rest); op := rest
      | "res" :: rest -> res := rest
      | [ "r"; a; b; c; d ] -> rows := { ropen = a; rpaid = b; rrecv = c; rflag = d } :: !rows
      | _ -> ()) lines;
  finish_case ();
  finish ~cases:!cases ~steps:!steps ~nontrivial:!nontrivial

let () = Conv.register "C05" run
