(* C19-denom runner: replays the histories of TestC19Denom (gauges and swap-fee gauges over epochs of
   InitateGaugesForDuration while the liquidity parameter SwapFeeDistrDenom changes) on the extracted
   denom-aware model Gauge.dstep, threading the MODEL state through the case and diffing every gauge record
   (amounts AND the denoms of the deposited / distributed coins), the module balances of five denoms and the
   per-account payouts after every step; the extracted predicates holds_C19_trigger_d, holds_C19_paid,
   holds_C19_custody and holds_C19_share judge the IMPLEMENTATION's observations. *)
open Conv

let zs = z_of_string
let sz = string_of_z
let zi = z_of_int
let cls_of (o : 'a Base.outcome) = match o with Base.Ok _ -> "ok" | Base.Err _ -> "err" | Base.Panic -> "panic"
let zadd = BinInt.Z.add
let zsub = BinInt.Z.sub
let z0 = BinNums.Z0

let parse_dg toks : Gauge.dgauge = match toks with
  | dep :: dist :: trig :: tot :: act :: swap :: den :: dur :: start :: dden :: _ ->
    { Gauge.dg_g = { Gauge.g_deposit = zs dep; g_distributed = zs dist; g_triggered = zs trig; g_total = zs tot; g_active = bool_of_tok act;
                     g_start = zs start; g_dur = zs dur; g_swap = bool_of_tok swap; g_denom = zs den };
      dg_ddenom = zs dden }
  | _ -> failwith "g line (denom)"

let show_dg (d : Gauge.dgauge) =
  let g = d.Gauge.dg_g in
  Printf.sprintf "dep=%s@%s/dist=%s@%s/%s/%s/%s/%s" (sz g.Gauge.g_deposit) (sz g.Gauge.g_denom) (sz g.Gauge.g_distributed) (sz d.Gauge.dg_ddenom)
    (sz g.Gauge.g_triggered) (sz g.Gauge.g_total) (tok_of_bool g.Gauge.g_active) (tok_of_bool g.Gauge.g_swap)

let run (path : string) =
  let lines = read_lines path in
  let cases = ref 0 and steps = ref 0 and nontrivial = ref 0 in
  let case = ref "" and step = ref 0 and nt = ref false in
  let sig_ = Buffer.create 4096 in
  let st = ref Gauge.dinit in
  let pgs : Gauge.dgauge list ref = ref [] and pbs : (int * BinNums.coq_Z) list ref = ref [] in
  let op : string list ref = ref [] in
  let farm = Hashtbl.create 8 and calc = Hashtbl.create 8 and recv = Hashtbl.create 8 in
  let res = ref "" and pays : (string * string * string) list ref = ref [] in
  let gs : (int * Gauge.dgauge) list ref = ref [] and bs : (int * BinNums.coq_Z) list ref = ref [] in
  let reset_step () = op := []; Hashtbl.reset farm; Hashtbl.reset calc; Hashtbl.reset recv; res := ""; pays := []; gs := []; bs := [] in
  let end_case () =
    if !case <> "" then begin
      incr cases; if !nt then incr nontrivial;
      Hashtbl.replace distinct (Digest.string (Buffer.contents sig_)) ()
    end in
  let pf pred kf detail = predfail ~case:!case ~step:!step ~pred ~kf ~detail in
  let cmpf field model impl = if model <> impl then mismatch ~case:!case ~step:!step ~field ~model ~impl in
  let diff_state () =
    let igs = L.map snd (L.rev !gs) in
    cmpf "gauges.count" (string_of_int (L.length (!st).Gauge.d_gauges)) (string_of_int (L.length igs));
    (try L.iteri (fun i (mg, ig) -> cmpf (Printf.sprintf "gauge[%d]" i) (show_dg mg) (show_dg ig)) (L.combine (!st).Gauge.d_gauges igs)
     with Invalid_argument _ -> ());
    L.iter (fun (d, b) -> cmpf (Printf.sprintf "bal[%d]" d) (sz ((!st).Gauge.d_bal (zi d))) (sz b)) (L.rev !bs) in
  let custody () =
    let igs = L.map (fun (_, (d : Gauge.dgauge)) -> d.Gauge.dg_g) (L.rev !gs) in
    L.iter (fun (d, b) ->
        if not (Gauge.holds_C19_custody (zi d) b igs []) then
          pf "custody" "none" (Printf.sprintf "denom=%d_bal=%s_owed=%s" d (sz b) (sz (Gauge.owed_active (zi d) igs [])))) (L.rev !bs) in
  let remember () = pgs := L.map snd (L.rev !gs); pbs := L.rev !bs in
  let apply_op (o : Gauge.dop) (impl_class : string) field =
    let r = Gauge.dstep !st o in
    cmpf field (cls_of r) impl_class;
    (match r with Base.Ok (s', _) -> st := s' | _ -> ());
    r in
  let process () =
    incr step; incr steps;
    (match !op with
     | [] ->
       st := Gauge.dinit;
       L.iter (fun (_, (d : Gauge.dgauge)) ->
           let g = d.Gauge.dg_g in
           if g.Gauge.g_swap then st := Gauge.dapply !st (Gauge.DCreateSwap (g.Gauge.g_denom, g.Gauge.g_start, g.Gauge.g_dur))) (L.rev !gs);
       L.iter (fun (d, b) -> if not (BinInt.Z.eqb b z0) then st := Gauge.dapply !st (Gauge.DDonate (zi d, b))) (L.rev !bs);
       bump "op:init"
     | "create" :: d :: dep :: total :: start :: now :: dur :: funds :: meta :: c :: _ ->
       bump ("op:create:" ^ c);
       ignore (apply_op (Gauge.DCreate (zs d, zs dep, zs total, zs start, zs now, zs dur, zs funds, bool_of_tok meta)) c "create.class")
     | "donate" :: d :: amt :: _ ->
       bump "op:donate"; ignore (apply_op (Gauge.DDonate (zs d, zs amt)) "ok" "donate.class")
     | "trigger" :: now :: dur :: _ ->
       let now = zs now and dur = zs dur in
       let ng = L.length (!st).Gauge.d_gauges in
       let fenv i = (try C19.parse_farm (Hashtbl.find farm i) with Not_found -> Gauge.FarmErr) in
       let farms = L.init ng fenv in
       let recv_of i = (match (try Hashtbl.find recv i with Not_found -> ["err"]) with
           | "ok" :: d :: a :: _ -> Base.Ok (zs d, zs a) | "panic" :: _ -> Base.Panic | _ -> Base.Err (zi 1)) in
       let recvs = L.init ng recv_of in
       let o = Gauge.DTrigger (now, dur, farms, recvs) in
       if not (Gauge.dop_wf o) then cmpf "env.dop_wf" "true" "false";
       (* the implementation's own share calculation: diff + share predicate *)
       Hashtbl.iter (fun i toks ->
           match toks with
           | coins :: c :: rest ->
             let coins = zs coins in
             let env = fenv i in
             let mo = Gauge.farm_calc env coins in
             cmpf (Printf.sprintf "calc[%d].class" i) (cls_of mo) c;
             bump ("calc:" ^ c);
             if c = "ok" then begin
               let n = int_of_string (L.hd rest) in
               let (g2, _) = C19.groups 2 n (L.tl rest) in
               let ipays = L.map (function [a; r] -> (zs a, zs r) | _ -> failwith "calc") g2 in
               (match mo with Base.Ok mp -> cmpf (Printf.sprintf "calc[%d]" i) (C19.show_pays mp) (C19.show_pays ipays) | _ -> ());
               let el = Gauge.eligible env in
               let total = L.fold_left (fun acc (_, s) -> zadd acc s) z0 el in
               L.iter (fun (a, r) ->
                   let s = try L.assoc a el with Not_found -> z0 in
                   bump "share:checked";
                   if not (Gauge.holds_C19_share coins total s r) then
                     pf "share" (if BinInt.Z.ltb z0 s && Gauge.kf_C19_1 coins total then "kf_C19_1" else "none")
                       (Printf.sprintf "coins=%s_total=%s_s=%s_payout=%s" (sz coins) (sz total) (sz s) (sz r))) ipays
             end
           | _ -> ()) calc;
       let r = apply_op o !res "trigger.class" in
       bump ("op:trigger:" ^ cls_of r);
       (match r with
        | Base.Ok (_, dp) ->
          let agg = Hashtbl.create 16 in
          L.iter (fun ((d, a), v) -> let k = (sz d, sz a) in
                   Hashtbl.replace agg k (zadd v (try Hashtbl.find agg k with Not_found -> z0))) dp;
          let ml = L.sort compare (Hashtbl.fold (fun (d, a) v acc -> if BinInt.Z.eqb v z0 then acc else (d ^ ":" ^ a ^ ":" ^ sz v) :: acc) agg []) in
          let il = L.sort compare (L.map (fun (d, a, v) -> d ^ ":" ^ a ^ ":" ^ v) !pays) in
          cmpf "payouts" (S.concat "," ml) (S.concat "," il);
          if ml <> [] then nt := true
        | _ -> cmpf "payouts" "" (S.concat "," (L.map (fun (d, a, v) -> d ^ ":" ^ a ^ ":" ^ v) !pays)));
       (* predicates on the implementation's before / after records *)
       let igs = L.map snd (L.rev !gs) in
       let pairs = (try L.combine !pgs (L.filteri (fun i _ -> i < L.length !pgs) igs) with Invalid_argument _ -> []) in
       let recv_amt i = (match recv_of i with Base.Ok (_, a) -> a | _ -> z0) in
       L.iteri (fun i ((g : Gauge.dgauge), (g' : Gauge.dgauge)) ->
           let sw = g.Gauge.dg_g.Gauge.g_swap in
           if sw && not (BinInt.Z.eqb g.Gauge.dg_g.Gauge.g_denom g'.Gauge.dg_g.Gauge.g_denom) then bump "denom:deposit-coin-replaced";
           if sw && not (BinInt.Z.eqb g.Gauge.dg_ddenom g'.Gauge.dg_ddenom) then begin
             bump "denom:first-payout-in-new-denom";
             if BinInt.Z.ltb z0 g'.Gauge.dg_g.Gauge.g_distributed then bump "denom:first-payout-in-new-denom:positive"
           end;
           if not (BinInt.Z.eqb g.Gauge.dg_g.Gauge.g_triggered g'.Gauge.dg_g.Gauge.g_triggered) then bump (if sw then "trigger:swap" else "trigger:gauge");
           (* the received amount counts only when the epoch was counted (the transfer was reached and succeeded) *)
           let ra = if BinInt.Z.eqb g.Gauge.dg_g.Gauge.g_triggered g'.Gauge.dg_g.Gauge.g_triggered then z0 else recv_amt i in
           if not (Gauge.holds_C19_trigger_d g g' ra) then
             pf "epoch_cap_denom" "none" (Printf.sprintf "%s->%s_recv=%s" (show_dg g) (show_dg g') (sz ra))) pairs;
       L.iter (fun (d, b') ->
           let dz = zi d in
           let b = try L.assoc d !pbs with Not_found -> z0 in
           let paid = L.fold_left (fun acc (pd, _, v) -> if pd = string_of_int d then zadd acc (zs v) else acc) z0 !pays in
           let booked = L.fold_left (fun acc ((g : Gauge.dgauge), (g' : Gauge.dgauge)) ->
               if BinInt.Z.eqb g.Gauge.dg_g.Gauge.g_denom dz then
                 zadd acc (if g.Gauge.dg_g.Gauge.g_swap then Gauge.dg_booked_amt g g'
                           else zsub g'.Gauge.dg_g.Gauge.g_distributed g.Gauge.dg_g.Gauge.g_distributed)
               else acc) z0 pairs in
           let recvd = L.fold_left (fun acc i ->
               let (g, g') = L.nth pairs i in
               if g.Gauge.dg_g.Gauge.g_swap && not (BinInt.Z.eqb g.Gauge.dg_g.Gauge.g_triggered g'.Gauge.dg_g.Gauge.g_triggered) then
                 (match recv_of i with Base.Ok (rd, a) when BinInt.Z.eqb rd dz -> zadd acc a | _ -> acc)
               else acc) z0 (L.init (L.length pairs) (fun i -> i)) in
           if not (Gauge.holds_C19_paid paid booked recvd b b') then
             pf "paid_le_booked" "none"
               (Printf.sprintf "denom=%d_paid=%s_booked=%s_recv=%s_bal=%s->%s" d (sz paid) (sz booked) (sz recvd) (sz b) (sz b'))) (L.rev !bs)
     | o :: _ -> bump ("op:unknown:" ^ o));
    diff_state ();
    custody ();
    remember () in
  L.iter (fun line ->
      match tokens line with
      | "case" :: id :: kind :: ch :: _ ->
        end_case (); case := id; step := -1; nt := false; Buffer.clear sig_; Buffer.add_string sig_ kind; reset_step ();
        pgs := []; pbs := []; bump ("kind:" ^ kind ^ (if bool_of_tok ch then ":denom-changes" else ":denom-constant"))
      | "op" :: rest -> op := rest; Buffer.add_string sig_ line
      | "env" :: k :: _ -> bump ("env:" ^ k); Buffer.add_string sig_ line
      | "farm" :: i :: rest -> Hashtbl.replace farm (int_of_string i) rest; Buffer.add_string sig_ line
      | "calc" :: i :: rest -> Hashtbl.replace calc (int_of_string i) rest
      | "recv" :: i :: rest -> Hashtbl.replace recv (int_of_string i) rest; Buffer.add_string sig_ line
      | "res" :: c :: _ -> res := c
      | "pay" :: d :: a :: v :: _ -> pays := (d, a, v) :: !pays
      | "g" :: i :: rest -> gs := (int_of_string i, parse_dg rest) :: !gs
      | "b" :: d :: v :: _ -> bs := (int_of_string d, zs v) :: !bs
      | "end" :: _ -> process (); reset_step ()
      | _ -> ()) lines;
  end_case ();
  finish ~cases:!cases ~steps:!steps ~nontrivial:!nontrivial

let () = Conv.register "C19-denom" run
