(* C05K runner entry: see liqrun.ml (shared with C04 / C07) *)
let () = Conv.register "C05-keeper" (Liqrun.run_prop "C05")
