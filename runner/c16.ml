(* C16 runner.  The trace is the concatenation of several replays of the same seeded workload
   (fresh in-process apps, fresh processes with different GOMAXPROCS).  Lines:
     replay <label>
     zone <off1>_<off2>          the offsets from UTC that "local time" has in this process before and after the
                                 daylight-saving switch the block times cross (TZ of the process)
     mode plain|dryrun           dryrun: every transaction was preceded by discarded dry runs
     case <block> ...            one case per block
     tx <i> <class>              result class of each transaction of the block
     d <store> <sha256>          digest of every DeFi module store, of the bank store and of the answers to the
                                 parameter queries (d queries) after the block
   For every block and every store (and every tx) the extracted predicate MapSites.holds_C16 (all
   replays agree) is evaluated on the list of observations across the replays. *)
open Conv

let coq_string = C15.coq_string

let run (path : string) =
  let lines = read_lines path in
  (* key = block ^ "|" ^ field ; value = list of (replay, observation) *)
  let tbl : (string, (string * string) list) Hashtbl.t = Hashtbl.create 4096 in
  let order = ref [] in
  let replay = ref "" and block = ref "" in
  let replays = ref [] in
  let txs = ref 0 and ok_txs = ref 0 in
  let zones : (string, unit) Hashtbl.t = Hashtbl.create 8 in
  let dryruns = ref 0 in
  let add field v =
    let key = !block ^ "|" ^ field in
    (match Hashtbl.find_opt tbl key with
     | None -> order := key :: !order; Hashtbl.replace tbl key [ (!replay, v) ]
     | Some l -> Hashtbl.replace tbl key ((!replay, v) :: l)) in
  L.iter (fun line ->
      match tokens line with
      | "replay" :: label :: _ -> replay := label; replays := label :: !replays; bump "replays"
      | "zone" :: z :: _ -> Hashtbl.replace zones z (); bump ("zone:" ^ z)
      | "mode" :: m :: _ -> bump ("mode:" ^ m); if m = "dryrun" then incr dryruns
      | "case" :: b :: _ -> block := b
      | "tx" :: i :: cls :: _ -> add ("tx" ^ i) cls; if !replay = L.hd (L.rev !replays) then (incr txs; bump ("tx:" ^ cls); if cls = "ok" then incr ok_txs)
      | "d" :: store :: dg :: _ -> add ("store:" ^ store) dg
      | _ -> ()) lines;
  let nrep = L.length !replays in
  let steps = ref 0 in
  let blocks : (string, unit) Hashtbl.t = Hashtbl.create 64 in
  L.iter (fun key ->
      let obs = L.rev (Hashtbl.find tbl key) in
      incr steps;
      let b, field = (match S.split_on_char '|' key with [ b; f ] -> b, f | _ -> key, "") in
      Hashtbl.replace blocks b ();
      if L.length obs <> nrep then
        mismatch ~case:b ~step:!steps ~field ~model:(string_of_int nrep ^ "_replays") ~impl:(string_of_int (L.length obs) ^ "_observations")
      else if not (MapSites.holds_C16 (L.map (fun (_, v) -> coq_string v) obs)) then begin
        let first = snd (L.hd obs) in
        let who = (try fst (L.find (fun (_, v) -> v <> first) obs) with Not_found -> "?") in
        predfail ~case:b ~step:!steps ~pred:"holds_C16" ~kf:"none"
          ~detail:(Printf.sprintf "block=%s_%s_differs_in_replay_%s" b field who)
      end) (L.rev !order);
  Hashtbl.iter (fun b () -> Hashtbl.replace distinct b ()) blocks;
  let nb = Hashtbl.length blocks in
  (* non-trivial: at least 2 replays, successful transactions, replays in at least 3 different zones (one
     of them with a daylight-saving switch inside the history) and a replay with discarded dry runs *)
  let dst = Hashtbl.fold (fun z () acc -> acc || (match S.split_on_char '_' z with [ a; b ] -> a <> b | _ -> false)) zones false in
  let wide = Hashtbl.length zones >= 3 && dst && !dryruns >= 1 in
  if nrep >= 2 && not wide then bump "setup:zones-or-dryrun-missing";
  finish ~cases:nb ~steps:!steps ~nontrivial:(if nrep >= 2 && !ok_txs > 0 && wide then nb else 0)

let () = Conv.register "C16" run
