(* C07 runner entry: see liqrun.ml (shared with C04) *)
let () = Conv.register "C07" (Liqrun.run_prop "C07")
